// Command c03 decides property C03 (emitted SQL is closed: every name, column and parameter it uses is defined).
//
// Engine E3: every statement the translator emits for the feature-grammar enumeration (all feature sets with <= k
// features, including updating clauses and shortest paths) and for every corpus query is bound by verif/pgbind, an own
// traversal of the pgsql AST with PostgreSQL's scoping rules and the schema extracted from schema_up.sql.
package main

import (
	"fmt"
	"os"
	"regexp"
	"sort"
	"strings"
	"sync"

	"verif/core"
	"verif/enum/cyq"
	"verif/pgbind"
	"verif/xlate"
)

type artefact struct {
	Text   string         `json:"text"`
	Params map[string]any `json:"params,omitempty"`
	Source string         `json:"source"`
	Issue  string         `json:"issue"`
	SQL    string         `json:"sql,omitempty"`
}

var (
	reStr = regexp.MustCompile(`'(?:[^']|'')*'`)
	reNum = regexp.MustCompile(`\b\d+(?:\.\d+)?\b`)
)

func skeleton(sql string) string {
	return reNum.ReplaceAllString(reStr.ReplaceAllString(sql, "'?'"), "0")
}

type verdict struct {
	outcome  string
	issues   []pgbind.Issue
	rep      *pgbind.Report
	sql      string
	updating bool
}

func judge(schema *pgbind.Schema, it xlate.Item, km *xlate.Mapper) verdict {
	q, err := xlate.ParseItem(it)
	if err != nil {
		return verdict{outcome: "parse-error"}
	}
	xlate.SetParameterValues(q, it.Params)
	updating, walked := xlate.HasUpdatingClause(q)
	o := xlate.AST(q, km.KindMapper, it.Params)
	if !o.OK() {
		return verdict{outcome: o.Kind()}
	}
	rep := pgbind.Statement(schema, o.Result.Statement)
	v := verdict{outcome: "ok", rep: rep, sql: o.SQL, updating: updating}
	sh := shapeOf(q)
	for _, is := range rep.Issues {
		is.Class = classOf(is.Class, sh) + roleOf(is.Detail)
		v.issues = append(v.issues, is)
	}
	for _, p := range rep.Params {
		if _, has := o.Params[p]; !has {
			v.issues = append(v.issues, pgbind.Issue{Class: "parameter-without-value", Detail: fmt.Sprintf("@%s is referenced by the statement but Result.Parameters has keys %v", p, keys(o.Params))})
		}
	}
	if len(rep.DML) > 0 && walked && !updating {
		v.issues = append(v.issues, pgbind.Issue{Class: "dml-without-updating-clause", Detail: fmt.Sprintf("statement contains %v but the Cypher query has no CREATE/SET/REMOVE/DELETE/MERGE", rep.DML)})
	}
	return v
}

func keys(m map[string]any) []string {
	out := make([]string, 0, len(m))
	for k := range m {
		out = append(out, k)
	}
	sort.Strings(out)
	return out
}

func main() {
	run := core.Start("C03", "exploration")
	schema, err := pgbind.LoadSchema(cyq.RepoRoot())
	if err != nil {
		core.Fatalf("schema: %v", err)
	}
	if run.Replay != "" {
		replay(run, schema)
		return
	}
	k := 2
	if run.Tier == core.Thorough {
		k = 3
	}
	items := xlate.Items(k)
	run.Set("feature_k_bound", int64(k))
	run.Set("rule", fmt.Sprintf("all feature sets with <= %d features over %d features on top of MATCH (n) RETURN n (read fragment + parameters + shortest paths + updating clauses), plus every corpus query with its parameters; every emitted statement bound by pgbind", k, len(cyq.FeatureNames(xlate.AllOptions))))
	run.Set("schema_tables", int64(len(schema.Tables)))
	run.Set("schema_functions", int64(len(schema.Funcs)))

	var mu sync.Mutex
	skeletons := map[string]bool{}
	outside := map[string]int64{}
	outcomes := map[string]int64{}
	mappers := make([]*xlate.Mapper, xlate.Workers())
	for i := range mappers {
		mappers[i] = xlate.NewMapper()
	}
	verdicts := make([]verdict, len(items))
	xlate.Parallel(len(items), func(w, i int) {
		verdicts[i] = judge(schema, items[i], mappers[w])
	})
	// sequential, in enumeration order (simplest first), so that the kept witness per class is the simplest
	hist := map[string]int64{}
	var bound, refs, fieldRefs, params, dmlStmts, harnessText, arity, levels, fullyBound int64
	for i, v := range verdicts {
		it := items[i]
		mu.Lock()
		outcomes[v.outcome]++
		mu.Unlock()
		if v.outcome != "ok" {
			continue
		}
		bound++
		refs += int64(v.rep.Resolved)
		fieldRefs += int64(v.rep.FieldRefs)
		params += int64(len(v.rep.Params))
		arity += int64(v.rep.CTEArityChecked)
		levels += int64(v.rep.Levels)
		if len(v.rep.DML) > 0 {
			dmlStmts++
		}
		harnessText += int64(len(v.rep.HarnessText))
		if len(v.rep.Outside) == 0 {
			fullyBound++
		}
		for what, n := range v.rep.Outside {
			outside[what] += int64(n)
		}
		if v.rep.Levels >= 2 {
			skeletons[skeleton(v.sql)] = true
		}
		if i == 0 || i == len(items)/2 || i == len(items)-1 {
			run.Sample(map[string]any{"text": it.Text, "sql": v.sql, "resolved_references": v.rep.Resolved, "levels": v.rep.Levels})
		}
		for _, is := range v.issues {
			hist[is.Class]++
			if os.Getenv("C03_DEBUG") != "" {
				fmt.Printf("DEBUG\t%s\t%s\t%s\t%s\n", is.Class, it.Text, is.Detail, strings.Join(it.Features, ","))
			}
			run.Report(core.Violation{Class: is.Class, Summary: fmt.Sprintf("%s  [query: %s]", is.Detail, it.Text),
				Artefact: artefact{Text: it.Text, Params: it.Params, Source: it.Source, Issue: is.Class + ": " + is.Detail, SQL: v.sql}})
		}
	}
	run.Add("evaluations", bound)
	run.Add("queries", int64(len(items)))
	run.Set("distinct_nontrivial", int64(len(skeletons)))
	run.Add("references_resolved", refs)
	run.Add("composite_field_references_checked", fieldRefs)
	run.Add("parameter_references_checked", params)
	run.Add("cte_column_lists_checked", arity)
	run.Add("select_levels", levels)
	run.Add("statements_with_dml", dmlStmts)
	run.Add("statements_fully_inside_binder", fullyBound)
	run.Add("harness_sql_text_fragments_outside_binder", harnessText)
	run.Set("translation_outcomes", outcomes)
	run.Set("outside_binder", outside)
	run.Set("issue_histogram", hist)
	run.Assume("the binder's scoping rules are PostgreSQL's (CTE visibility, LATERAL/JOIN ON, correlated sub-queries, GROUP BY/ORDER BY output names); the schema is the one parsed from drivers/pg/query/sql/schema_up.sql")
	run.Assume("SQL passed as text to the plpgsql harness functions (string parameters/literals) is not bound (no SQL parser): counted as harness_sql_text_fragments_outside_binder; its token structure is checked by C04")
	run.Finish()
}

func replay(run *core.Run, schema *pgbind.Schema) {
	var art artefact
	core.LoadArtefact(run.Replay, &art)
	v := judge(schema, xlate.Item{Text: art.Text, Params: art.Params, Source: art.Source}, xlate.NewMapper())
	fmt.Println("cypher :", art.Text)
	fmt.Println("outcome:", v.outcome)
	fmt.Println("sql    :", v.sql)
	if v.rep != nil {
		fmt.Println("binder : resolved", v.rep.Resolved, "levels", v.rep.Levels, "params", v.rep.Params, "dml", v.rep.DML, "outside", v.rep.Outside)
	}
	if len(v.issues) == 0 {
		fmt.Println("replay: no violation")
	}
	for _, is := range v.issues {
		fmt.Println("issue  :", is.Class, "-", is.Detail)
		run.Report(core.Violation{Class: is.Class, Summary: is.Detail + "  [query: " + art.Text + "]", Artefact: art})
	}
	_ = strings.TrimSpace
	run.Finish()
}
