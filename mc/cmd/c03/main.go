package main

import (
	"fmt"
	"os"
	"sort"
	"time"

	"verif/enum/cyq"
	"verif/xlate"
)

func main() {
	k := 2
	if len(os.Args) > 1 {
		fmt.Sscan(os.Args[1], &k)
	}
	t0 := time.Now()
	qs := cyq.EnumerateWith(k, cyq.Options{Parameters: true, ShortestPaths: true, Updating: true})
	fmt.Println("enumerated", len(qs), time.Since(t0))
	fmt.Println("corpus", len(cyq.Corpus()), "translation corpus", len(cyq.TranslationCorpus()), "distinct", len(cyq.CorpusTexts()))
	km := cyq.KindMapper()
	counts := map[string]int{}
	errs := map[string]int{}
	errEx := map[string]string{}
	t0 = time.Now()
	for _, q := range qs {
		o := xlate.Text(q.Text, km, nil)
		counts[o.Kind()]++
		if !o.OK() {
			key := o.Kind() + ": " + o.Err + o.Panic
			if len(key) > 90 {
				key = key[:90]
			}
			errs[key]++
			if errEx[key] == "" {
				errEx[key] = q.Text
			}
		}
	}
	fmt.Println(counts, time.Since(t0))
	keys := []string{}
	for k := range errs {
		keys = append(keys, k)
	}
	sort.Slice(keys, func(i, j int) bool { return errs[keys[i]] > errs[keys[j]] })
	for _, k := range keys {
		fmt.Printf("%5d %s\n      e.g. %s\n", errs[k], k, errEx[k])
	}
	cc := map[string]int{}
	for _, c := range cyq.Corpus() {
		q, err := cyq.Parse(c.Text)
		if err != nil {
			cc["parse-error"]++
			continue
		}
		xlate.SetParameterValues(q, c.Params)
		o := xlate.AST(q, km, c.Params)
		cc[o.Kind()]++
		if !o.OK() {
			fmt.Println("CORPUS", o.Kind(), c.Source, c.Text, "=>", o.Err, o.Panic)
		}
	}
	fmt.Println(cc)
}
