package main

import (
	"regexp"
	"strings"

	"github.com/specterops/dawgs/cypher/models/cypher"
	"github.com/specterops/dawgs/cypher/models/walk"
)

// shape summarises the Cypher query so that a closure defect is reported under a class that names its trigger
// (issue kind + query shape); a defect with a different trigger or a different kind of dangling reference gets a
// different class.
type shape struct {
	unwind, updating, patternPredicate, varLenNamedRel, varLen, multiDelete, labelsFn, with bool
	repeatedNodeVar, relationshipMatch, optionalAfterWith                                   bool
	leadingUnwind, shortest, optionalMatch, withScalarAlias                                 bool
	matchClauses                                                                            int
	relFnOnNonRel                                                                           bool
	readingClauses                                                                          int
}

func shapeOf(q *cypher.RegularQuery) shape {
	var s shape
	var relFnCalls []*cypher.FunctionInvocation
	relVars := map[string]bool{}
	pathVars := map[string]bool{}
	_ = walk.Cypher(q, walk.NewSimpleVisitor[cypher.SyntaxNode](func(node cypher.SyntaxNode, _ walk.VisitorHandler) {
		switch t := node.(type) {
		case *cypher.Unwind:
			s.unwind = true
		case *cypher.Match:
			s.matchClauses++
			if t.Optional {
				s.optionalMatch = true
			}
			for _, part := range t.Pattern {
				for _, el := range part.PatternElements {
					if el.IsRelationshipPattern() {
						s.relationshipMatch = true // a relationship pattern of a MATCH (not of CREATE / MERGE)
					}
				}
			}
		case *cypher.ProjectionItem:
			if _, isVar := t.Expression.(*cypher.Variable); !isVar && t.Alias != nil {
				s.withScalarAlias = true
			}
		case *cypher.UpdatingClause, *cypher.Create, *cypher.Set, *cypher.Remove, *cypher.Merge:
			s.updating = true
		case *cypher.Delete:
			s.updating = true
			if len(t.Expressions) > 1 {
				s.multiDelete = true
			}
		case *cypher.MultiPartQuery:
			first := func(rcs []*cypher.ReadingClause) bool {
				return len(rcs) > 0 && rcs[0] != nil && rcs[0].Match != nil && rcs[0].Match.Optional
			}
			for i, part := range t.Parts {
				if i > 0 && part != nil && first(part.ReadingClauses) {
					s.optionalAfterWith = true
				}
			}
			if len(t.Parts) > 0 && t.SinglePartQuery != nil && first(t.SinglePartQuery.ReadingClauses) {
				s.optionalAfterWith = true
			}
		case *cypher.PatternPredicate:
			s.patternPredicate = true
		case *cypher.PatternPart:
			if t.Variable != nil {
				pathVars[t.Variable.Symbol] = true
			}
			if t.ShortestPathPattern || t.AllShortestPathsPattern {
				s.shortest = true
			}
			seen := map[string]bool{}
			for _, el := range t.PatternElements {
				if np, ok := el.AsNodePattern(); ok && np.Variable != nil {
					if seen[np.Variable.Symbol] {
						s.repeatedNodeVar = true
					}
					seen[np.Variable.Symbol] = true
				}
			}
		case *cypher.RelationshipPattern:
			if t.Variable != nil {
				relVars[t.Variable.Symbol] = true
			}
			if t.Range != nil {
				s.varLen = true
				if t.Variable != nil {
					s.varLenNamedRel = true
				}
			}
		case *cypher.FunctionInvocation:
			if strings.EqualFold(t.Name, "labels") {
				s.labelsFn = true
			}
			switch strings.ToLower(t.Name) {
			case "type", "startnode", "endnode", "labels", "id":
				relFnCalls = append(relFnCalls, t)
			}
		case *cypher.With:
			s.with = true
		case *cypher.ReadingClause:
			s.readingClauses++
		}
	}))
	// type() / startNode() / endNode() of something that is not a relationship, labels() of a relationship or path, id() of a path
	for _, f := range relFnCalls {
		for _, a := range f.Arguments {
			v, ok := a.(*cypher.Variable)
			if !ok {
				continue
			}
			switch strings.ToLower(f.Name) {
			case "type", "startnode", "endnode":
				s.relFnOnNonRel = s.relFnOnNonRel || !relVars[v.Symbol]
			case "labels":
				s.relFnOnNonRel = s.relFnOnNonRel || relVars[v.Symbol] || pathVars[v.Symbol]
			case "id":
				s.relFnOnNonRel = s.relFnOnNonRel || pathVars[v.Symbol]
			}
		}
	}
	// is the very first clause of the query an UNWIND?
	if q != nil && q.SingleQuery != nil {
		var first []*cypher.ReadingClause
		if mp := q.SingleQuery.MultiPartQuery; mp != nil && len(mp.Parts) > 0 && mp.Parts[0] != nil {
			first = mp.Parts[0].ReadingClauses
		} else if sp := q.SingleQuery.SinglePartQuery; sp != nil {
			first = sp.ReadingClauses
		}
		if len(first) > 0 && first[0] != nil && first[0].Unwind != nil {
			s.leadingUnwind = true
		}
	}
	return s
}

// classOf names the failure class of one binder issue in the context of the query shape.
func classOf(issue string, s shape) string {
	switch {
	case issue == "field-of-non-composite" && s.varLenNamedRel:
		return "field-of-array:variable-length-relationship-variable-used-as-one-relationship"
	case s.relFnOnNonRel && (issue == "unknown-column" || issue == "unknown-composite-field" || issue == "unknown-relation-qualifier"):
		return issue + ":entity-function-applied-to-an-argument-of-another-kind"
	case s.multiDelete:
		return issue + ":delete-with-several-targets"
	case s.leadingUnwind && s.varLen:
		return issue + ":query-starts-with-unwind-before-variable-length-match"
	case s.leadingUnwind && s.updating && s.matchClauses == 0:
		return issue + ":query-starts-with-unwind-directly-followed-by-updating-clause"
	case s.unwind && s.updating:
		return issue + ":unwind-followed-by-updating-clause"
	case s.patternPredicate && issue != "field-of-non-composite":
		return issue + ":pattern-predicate-placed-outside-its-frame"
	case s.unwind && s.with && s.shortest:
		return issue + ":unwind-after-WITH-before-shortest-path-match"
	case s.unwind && s.with && s.optionalMatch && issue == "unknown-column":
		return issue + ":optional-match-after-WITH-and-UNWIND"
	case s.leadingUnwind && s.with && issue == "unknown-relation":
		return issue + ":query-starts-with-unwind-followed-by-WITH"
	case s.with && s.withScalarAlias && s.updating && s.readingClauses >= 2 && issue == "unknown-relation-qualifier":
		return issue + ":updating-clause-after-second-match-reads-WITH-alias"
	case s.unwind && s.varLen:
		return issue + ":unwind-before-variable-length-match"
	case s.labelsFn && s.with && issue == "unknown-relation-qualifier":
		return issue + ":labels()-predicate-deferred-past-WITH"
	case s.optionalAfterWith:
		return issue + ":optional-match-directly-after-WITH"
	case s.repeatedNodeVar:
		return issue + ":repeated-node-variable-in-one-pattern"
	case s.updating && s.relationshipMatch && issue == "unknown-relation-qualifier":
		return issue + ":updating-clause-reads-endpoint-pruned-from-relationship-match"
	case s.varLenNamedRel && issue == "unknown-relation-qualifier":
		return issue + ":variable-length-relationship-variable-in-predicate"
	}
	return issue
}

var generatedName = regexp.MustCompile(`\b(s|n|e|ep|i|pi|pc)[0-9]+\b`)

// roleOf names the kind of translator-generated name the issue is about (the first one in its description): a frame
// (s<N>), a node alias (n<N>), a relationship alias (e<N>), a path (ep<N>) or a value column (i<N>, pi<N>, pc<N>). Two
// defects with the same trigger shape that leave different kinds of names dangling get different classes.
func roleOf(detail string) string {
	m := generatedName.FindStringSubmatch(detail)
	if m == nil {
		return ""
	}
	switch m[1] {
	case "s":
		return "@frame"
	case "n":
		return "@node-alias"
	case "e":
		return "@relationship-alias"
	case "ep":
		return "@path"
	}
	return "@value-column"
}
