// Command cyconform binds the reference Cypher evaluator to real backends: it replays every non-updating case of the
// project's integration corpus (fixtures with expectations the maintainers run against live PostgreSQL and Neo4j)
// through cyref and evaluates the recorded assertion. A mismatch is a bug of cyref by definition.
package main

import (
	"errors"
	"flag"
	"fmt"
	"os"
	"sort"

	"github.com/specterops/dawgs/cypher/frontend"

	"verif/cyref"
	"verif/icorpus"
)

func main() {
	verbose := flag.Bool("v", false, "list unknown cases too")
	flag.Parse()
	cases, err := icorpus.Load(icorpus.RepoRoot())
	if err != nil {
		fmt.Println(err)
		os.Exit(2)
	}
	var total, updating, parseErr, ok, unknown, runtimeErr, mismatch, meta int
	unknownWhy := map[string]int{}
	for _, c := range cases {
		total++
		if c.ParseErr != "" {
			parseErr++
			continue
		}
		if c.Updating {
			updating++
			continue
		}
		if c.Assert == nil {
			meta++
			continue
		}
		q, err := frontend.ParseCypher(frontend.NewContext(), c.Cypher)
		if err != nil {
			parseErr++
			continue
		}
		res, err := cyref.New(c.Graph, c.Params).Run(q)
		var unk cyref.ErrUnknown
		if errors.As(err, &unk) {
			unknown++
			unknownWhy[unk.What]++
			if *verbose {
				fmt.Printf("UNKNOWN  %s: %s\n   %s\n", c.Name, unk.What, c.Cypher)
			}
			continue
		}
		var good bool
		var why string
		if err != nil {
			runtimeErr++
			good, why = c.Check(nil, err)
		} else {
			good, why = c.Check(res.Rows, nil)
		}
		if good {
			ok++
		} else {
			mismatch++
			fmt.Printf("MISMATCH %s\n   query:  %s\n   assert: %s\n   why:    %s\n", c.Name, c.Cypher, c.Assert.Raw, why)
			if err != nil {
				fmt.Printf("   error:  %v\n", err)
			} else {
				fmt.Printf("   got:    %v\n", res.Rows.Seq())
			}
		}
	}
	fmt.Printf("cases=%d updating=%d parse-errors=%d metamorphic-members=%d reproduced=%d (of which expected errors %d) unknown=%d MISMATCH=%d\n",
		total, updating, parseErr, meta, ok, runtimeErr, unknown, mismatch)
	var whys []string
	for w, n := range unknownWhy {
		whys = append(whys, fmt.Sprintf("%4d  %s", n, w))
	}
	sort.Sort(sort.Reverse(sort.StringSlice(whys)))
	for _, w := range whys {
		fmt.Println("  unknown:", w)
	}
	if mismatch > 0 {
		os.Exit(1)
	}
}
