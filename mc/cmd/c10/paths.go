package main

// The production emission paths, each returning the reference model M and the emitted text (with its parameters).

import (
	"fmt"

	"github.com/specterops/dawgs/cypher/frontend"
	"github.com/specterops/dawgs/cypher/models/cypher"
	"github.com/specterops/dawgs/cypher/models/cypher/format"
	neo4jdriver "github.com/specterops/dawgs/drivers/neo4j"
	"github.com/specterops/dawgs/graph"
	"github.com/specterops/dawgs/query"
	neo4jq "github.com/specterops/dawgs/query/neo4j"
	v2 "github.com/specterops/dawgs/query/v2"

	"verif/core"
)

type emission struct {
	path    string
	m       side   // reference model
	text    string // emitted Cypher
	params  map[string]any
	refused string // non-empty: no text was produced (builder / emitter returned an error); nothing to judge
	// reuse: non-empty when a second query built from the very same criteria values does not give the same text and
	// parameters as the first (callers build a count query and a fetch query from one criteria value)
	reuse string
}

func parseText(text string) (*cypher.RegularQuery, error) {
	var q *cypher.RegularQuery
	var err error
	if p := core.Try(func() { q, err = frontend.ParseCypher(frontend.NewContext(), text) }); p != nil {
		return nil, fmt.Errorf("parser panicked: %v", p)
	}
	if err != nil {
		return nil, err
	}
	if q == nil {
		return nil, fmt.Errorf("parser returned no query")
	}
	return q, nil
}

// pathNeo4jBuilder: the stable builder exactly as drivers/neo4j uses it: NewEmptyQueryBuilder, Apply(criteria...),
// Prepare (pattern inference, parameter naming, ExpressionListRewriter), Render + Parameters. The reference model is what
// the PostgreSQL driver translates for the same criteria: query.NewBuilderWithCriteria(criteria...).Build(false).
func pathNeo4jBuilder(crit func() []graph.Criteria) (e emission) {
	e.path = "query/neo4j QueryBuilder"
	var (
		ref    *cypher.RegularQuery
		refErr error
		text   string
		params map[string]any
		emErr  error
	)
	if p := core.Try(func() {
		b := query.NewBuilderWithCriteria(crit()...)
		ref, refErr = b.Build(false)
	}); p != nil {
		e.refused = fmt.Sprintf("query.Builder panicked: %v", p)
		return
	}
	if refErr != nil {
		e.refused = "query.Builder: " + refErr.Error()
		return
	}
	if p := core.Try(func() {
		qb := neo4jq.NewEmptyQueryBuilder()
		for _, c := range crit() {
			qb.Apply(c)
		}
		if emErr = qb.Prepare(); emErr != nil {
			return
		}
		text, emErr = qb.Render()
		params = qb.Parameters
	}); p != nil {
		e.refused = fmt.Sprintf("neo4j.QueryBuilder panicked: %v", p)
		return
	}
	if emErr != nil {
		e.refused = "neo4j.QueryBuilder: " + emErr.Error()
		return
	}
	if params == nil {
		params = map[string]any{}
	}
	e.m, e.text, e.params = side{q: ref}, text, params
	// the same criteria values used for two builders in a row
	_ = core.Try(func() {
		shared := crit()
		var texts [2]string
		for i := range texts {
			qb := neo4jq.NewEmptyQueryBuilder()
			for _, c := range shared {
				qb.Apply(c)
			}
			if err := qb.Prepare(); err != nil {
				texts[i] = "error: " + err.Error()
				continue
			}
			t, err := qb.Render()
			if err != nil {
				t = "error: " + err.Error()
			}
			texts[i] = t + " " + fmt.Sprint(qb.Parameters)
		}
		if texts[0] != texts[1] {
			e.reuse = fmt.Sprintf("first query %q, second query from the same criteria values %q", texts[0], texts[1])
		}
	})
	return
}

// pathV2: the fluent builder: Build() yields the model (which the PostgreSQL backend translates as it is) and its
// parameters; the Neo4j side receives format.RegularQuery of the same model.
func pathV2(mk func() v2.QueryBuilder) (e emission) {
	e.path = "query/v2 Build + format.RegularQuery"
	var (
		pq   *v2.PreparedQuery
		err  error
		text string
	)
	if p := core.Try(func() { pq, err = mk().Build() }); p != nil {
		e.refused = fmt.Sprintf("v2 Build panicked: %v", p)
		return
	}
	if err != nil {
		e.refused = "v2 Build: " + err.Error()
		return
	}
	if p := core.Try(func() { text, err = format.RegularQuery(pq.Query, false) }); p != nil {
		e.refused = fmt.Sprintf("format.RegularQuery panicked: %v", p)
		return
	}
	if err != nil {
		e.refused = "format.RegularQuery: " + err.Error()
		return
	}
	params := pq.Parameters
	if params == nil {
		params = map[string]any{}
	}
	e.m, e.text, e.params = side{q: pq.Query, params: params}, text, params
	return
}

// pathFormat: plain format.RegularQuery on a parser-made model.
func pathFormat(queryText string) (e emission) {
	e.path = "format.RegularQuery(parse(text))"
	m, err := parseText(queryText)
	if err != nil {
		e.refused = "not accepted by the parser"
		return
	}
	var text string
	if p := core.Try(func() { text, err = format.RegularQuery(m, false) }); p != nil {
		e.refused = fmt.Sprintf("format.RegularQuery panicked: %v", p)
		return
	}
	if err != nil {
		e.refused = "format.RegularQuery: " + err.Error()
		return
	}
	e.m, e.text, e.params = side{q: m, params: map[string]any{}}, text, map[string]any{}
	return
}

// pathDriverRewrite: drivers/neo4j/query_rewrite.go: parse -> rewrite (pattern property parameters, temporal
// comparisons) -> re-emit. The reference model is the parse of the text the caller handed in.
func pathDriverRewrite(queryText string, params map[string]any) (e emission) {
	e.path = "drivers/neo4j rewriteQuery"
	m, err := parseText(queryText)
	if err != nil {
		e.refused = "not accepted by the parser"
		return
	}
	var (
		text      string
		outParams map[string]any
	)
	if p := core.Try(func() { text, outParams, err = neo4jdriver.VerifRewriteQuery(queryText, params) }); p != nil {
		e.refused = fmt.Sprintf("rewriteQuery panicked: %v", p)
		return
	}
	if err != nil {
		e.refused = "rewriteQuery: " + err.Error()
		return
	}
	if outParams == nil {
		outParams = map[string]any{}
	}
	in := params
	if in == nil {
		in = map[string]any{}
	}
	e.m, e.text, e.params = side{q: m, params: in}, text, outParams
	return
}
