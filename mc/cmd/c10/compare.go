package main

// Comparison of a reference model M (what the PostgreSQL backend would translate) with the model T parsed back from the
// Cypher text DAWGS emitted for it: clause by clause; exact parts by canon, boolean parts by 3-valued truth tables.

import (
	"fmt"
	"math/bits"
	"sort"
	"strings"

	"github.com/specterops/dawgs/cypher/models/cypher"
)

type side struct {
	q      *cypher.RegularQuery
	params map[string]any // non-nil: parameters are resolved by symbol (text side); nil: Parameter.Value is used
}

// clause is one flattened clause of a query: an exact part and an optional boolean part.
type clause struct {
	kind  string // match | unwind | update | with | return
	exact string
	where *bnode
	multi bool // a Where with more than one top-level expression (has no defined meaning; not judged)
}

type difference struct {
	class   string
	summary string
}

const maxAtoms = 9

func flatten(s side) (out []clause, err error) {
	c := &canonCtx{params: s.params}
	if s.q == nil || s.q.SingleQuery == nil {
		return nil, fmt.Errorf("no single query")
	}
	where := func(w *cypher.Where) (*bnode, bool) {
		if w == nil || len(w.Expressions) == 0 {
			return nil, false
		}
		if len(w.Expressions) > 1 {
			return nil, true
		}
		return c.skeleton(w.Expressions[0]), false
	}
	reading := func(rcs []*cypher.ReadingClause) {
		for _, rc := range rcs {
			switch {
			case rc.Match != nil:
				var parts []string
				var folded []*bnode
				for _, pp := range rc.Match.Pattern {
					// kind constraints of a *named* relationship pattern are the same thing as a kind test on that variable
					// in WHERE (the Neo4j builder moves them there on purpose): fold them into the boolean part
					cp := *pp
					cp.PatternElements = nil
					for _, pe := range pp.PatternElements {
						if rp, ok := pe.Element.(*cypher.RelationshipPattern); ok && rp.Variable != nil && len(rp.Kinds) > 0 {
							km := &cypher.KindMatcher{Reference: rp.Variable, Kinds: rp.Kinds}
							folded = append(folded, c.skeleton(km))
							r2 := *rp
							r2.Kinds = nil
							cp.PatternElements = append(cp.PatternElements, &cypher.PatternElement{Element: &r2})
						} else {
							cp.PatternElements = append(cp.PatternElements, pe)
						}
					}
					parts = append(parts, c.patternPart(&cp))
				}
				w, multi := where(rc.Match.Where)
				if len(folded) > 0 {
					n := &bnode{kind: bAnd}
					if w != nil {
						n.kids = append(n.kids, w)
					}
					n.kids = append(n.kids, folded...)
					w = n
				}
				out = append(out, clause{kind: "match", exact: fmt.Sprintf("optional=%v %s", rc.Match.Optional, strings.Join(parts, ", ")), where: w, multi: multi})
			case rc.Unwind != nil:
				out = append(out, clause{kind: "unwind", exact: c.canon(rc.Unwind.Expression) + " as " + c.canon(rc.Unwind.Variable)})
			}
		}
	}
	updating := func(u cypher.Expression) {
		uc, ok := u.(*cypher.UpdatingClause)
		if !ok || uc == nil {
			out = append(out, clause{kind: "update", exact: fmt.Sprintf("<%T>", u)})
			return
		}
		switch t := uc.Clause.(type) {
		case *cypher.Set:
			var items []string
			for _, it := range t.Items {
				items = append(items, "("+c.canon(it.Left)+" "+string(it.Operator)+" "+c.canon(it.Right)+")")
			}
			out = append(out, clause{kind: "update", exact: "set " + strings.Join(items, " ")})
		case *cypher.Remove:
			var items []string
			for _, it := range t.Items {
				if it.KindMatcher != nil {
					items = append(items, "(kinds "+c.canon(it.KindMatcher.Reference)+" "+kindsRepr(it.KindMatcher.Kinds)+")")
				} else {
					items = append(items, c.canon(it.Property))
				}
			}
			out = append(out, clause{kind: "update", exact: "remove " + strings.Join(items, " ")})
		case *cypher.Delete:
			out = append(out, clause{kind: "update", exact: fmt.Sprintf("delete detach=%v %s", t.Detach, c.list(t.Expressions))})
		case *cypher.Create:
			var parts []string
			for _, pp := range t.Pattern {
				parts = append(parts, c.patternPart(pp))
			}
			out = append(out, clause{kind: "update", exact: fmt.Sprintf("create unique=%v %s", t.Unique, strings.Join(parts, ", "))})
		case *cypher.Merge:
			s := "merge " + c.patternPart(t.PatternPart)
			for _, a := range t.MergeActions {
				s += fmt.Sprintf(" on(create=%v match=%v)", a.OnCreate, a.OnMatch)
				if a.Set != nil {
					for _, it := range a.Set.Items {
						s += " (" + c.canon(it.Left) + " " + string(it.Operator) + " " + c.canon(it.Right) + ")"
					}
				}
			}
			out = append(out, clause{kind: "update", exact: s})
		default:
			out = append(out, clause{kind: "update", exact: fmt.Sprintf("<%T>", uc.Clause)})
		}
	}
	projection := func(kind string, p *cypher.Projection, w *cypher.Where) {
		if p == nil {
			out = append(out, clause{kind: kind, exact: "no projection"})
			return
		}
		var sb strings.Builder
		fmt.Fprintf(&sb, "distinct=%v all=%v items[%s]", p.Distinct, p.All, c.list(p.Items))
		sb.WriteString(" order[")
		if p.Order != nil {
			for _, it := range p.Order.Items {
				dir := "desc"
				if it.Ascending {
					dir = "asc"
				}
				sb.WriteString(c.canon(it.Expression) + " " + dir + ";")
			}
		}
		sb.WriteString("] " + c.canon(p.Skip) + " " + c.canon(p.Limit))
		bw, multi := where(w)
		out = append(out, clause{kind: kind, exact: sb.String(), where: bw, multi: multi})
	}
	spq := func(q *cypher.SinglePartQuery) {
		reading(q.ReadingClauses)
		for _, u := range q.UpdatingClauses {
			updating(u)
		}
		if q.Return != nil {
			projection("return", q.Return.Projection, nil)
		}
	}
	if mp := s.q.SingleQuery.MultiPartQuery; mp != nil {
		for _, part := range mp.Parts {
			reading(part.ReadingClauses)
			for _, u := range part.UpdatingClauses {
				updating(u)
			}
			if part.With != nil {
				projection("with", part.With.Projection, part.With.Where)
			}
		}
		if mp.SinglePartQuery != nil {
			spq(mp.SinglePartQuery)
		}
	}
	if q := s.q.SingleQuery.SinglePartQuery; q != nil {
		spq(q)
	}
	return out, nil
}

func atomsOf(n *bnode, set map[string]bool) {
	if n == nil {
		return
	}
	var all []string
	collectAtoms(n, &all)
	for _, a := range all {
		set[a] = true
	}
}

type compareStats struct {
	atoms       int
	assignments int
	unjudged    string // non-empty: why nothing could be compared
}

func literalTypeOnly(a, b string) bool {
	// do the two canons differ only in a float literal having become an integer literal of the same value?
	ra := strings.NewReplacer("float:", "num:", "int:", "num:")
	return a != b && ra.Replace(a) == ra.Replace(b) && strings.Contains(a, "float:")
}

// compare returns nil when T means what M says.
func compare(m, t side) (*difference, compareStats) {
	var st compareStats
	cm, err := flatten(m)
	if err != nil {
		st.unjudged = "reference model: " + err.Error()
		return nil, st
	}
	ct, err := flatten(t)
	if err != nil {
		return &difference{"emitted-text-parses-to-no-query", err.Error()}, st
	}
	if len(cm) != len(ct) {
		return &difference{"clause-structure-differs", fmt.Sprintf("model has %d clauses %v, emitted text %d clauses %v", len(cm), kinds(cm), len(ct), kinds(ct))}, st
	}
	for i := range cm {
		a, b := cm[i], ct[i]
		if a.kind != b.kind {
			return &difference{"clause-structure-differs", fmt.Sprintf("clause %d is %s in the model and %s in the emitted text", i, a.kind, b.kind)}, st
		}
		if a.exact != b.exact {
			class := map[string]string{"match": "pattern-differs", "unwind": "unwind-differs", "update": "update-clause-differs", "with": "projection-differs", "return": "projection-differs"}[a.kind]
			if literalTypeOnly(a.exact, b.exact) {
				class = "float-literal-emitted-as-integer"
			}
			return &difference{class, fmt.Sprintf("%s clause: model %s | emitted text %s", a.kind, a.exact, b.exact)}, st
		}
		if a.multi || b.multi {
			st.unjudged = "a WHERE with several top-level expressions has no defined meaning"
			continue
		}
		if a.where == nil && b.where == nil {
			continue
		}
		set := map[string]bool{}
		atomsOf(a.where, set)
		onlyM, onlyT := map[string]bool{}, map[string]bool{}
		atomsOf(a.where, onlyM)
		atomsOf(b.where, onlyT)
		atomsOf(b.where, set)
		guards := map[string]string{}
		collectGuards(a.where, guards)
		collectGuards(b.where, guards)
		isGuard := map[string]bool{}
		for _, g := range guards {
			isGuard[g] = true
			set[g] = true
		}
		var lm, lt []string
		for x := range onlyM {
			if !onlyT[x] && !isGuard[x] {
				lm = append(lm, x)
			}
		}
		for x := range onlyT {
			if !onlyM[x] && !isGuard[x] {
				lt = append(lt, x)
			}
		}
		sort.Strings(lm)
		sort.Strings(lt)
		if len(lm) > 0 || len(lt) > 0 {
			class := "leaf-differs"
			if len(lt) == 0 {
				allEmpty := true
				for _, x := range lm {
					allEmpty = allEmpty && strings.HasPrefix(x, "(kind none ")
				}
				if allEmpty {
					class = "empty-kind-test-dropped-from-text"
				}
			}
			if len(lm) == len(lt) {
				all := true
				for j := range lm {
					all = all && literalTypeOnly(lm[j], lt[j])
				}
				if all {
					class = "float-literal-emitted-as-integer"
				}
			}
			return &difference{class, fmt.Sprintf("leaves only in the model %v; only in the emitted text %v", lm, lt)}, st
		}
		atoms := make([]string, 0, len(set))
		for x := range set {
			atoms = append(atoms, x)
		}
		sort.Strings(atoms)
		if len(atoms) > maxAtoms {
			st.unjudged = fmt.Sprintf("%d distinct leaves exceed the truth-table bound %d", len(atoms), maxAtoms)
			continue
		}
		index := map[string]int{}
		for j, x := range atoms {
			index[x] = j
		}
		k := len(atoms)
		guardOf := map[int]int{}
		for atom, g := range guards {
			guardOf[index[atom]] = index[g]
		}
		tm := table(reading(a.where, deviations{}, index, guardOf), k)
		tt := table(reading(b.where, deviations{}, index, guardOf), k)
		st.atoms += k
		st.assignments += len(tm)
		if d := sameTable(tm, tt); d >= 0 {
			// name the root cause: the smallest set of deviation switches under which the model reads like the text
			class := "boolean-structure-differs"
			best := -1
			for mask := 1; mask < deviationMasks; mask++ {
				if best >= 0 && bits.OnesCount(uint(mask)) >= bits.OnesCount(uint(best)) {
					continue
				}
				if sameTable(table(reading(a.where, deviationSet(mask), index, guardOf), k), tt) < 0 {
					best = mask
				}
			}
			if best >= 0 {
				var names []string
				for bit, name := range deviationNames {
					if best&(1<<bit) != 0 {
						names = append(names, name)
					}
				}
				class = strings.Join(names, "+")
			}
			val := func(v tv) string { return [...]string{"F", "T", "NULL"}[v] }
			return &difference{class, fmt.Sprintf("WHERE of the model %s | of the emitted text %s | e.g. under %s the model is %s, the text is %s (%d of %d assignments differ)",
				a.where.render(), b.where.render(), describeAssignment(d, atoms), val(tm[d]), val(tt[d]), countDiff(tm, tt), len(tm))}, st
		}
	}
	return nil, st
}

func countDiff(a, b []tv) int {
	n := 0
	for i := range a {
		if a[i] != b[i] {
			n++
		}
	}
	return n
}

func kinds(cs []clause) []string {
	out := make([]string, len(cs))
	for i, c := range cs {
		out[i] = c.kind
	}
	return out
}
