package main

// Case = one replayable input of the check: an emission path, a WHERE term, a tail (projection / order / skip / limit /
// updating clauses) or a query text. enumerateCases lists every case inside the tier's bounds.

import (
	"fmt"
	"os"
	"path/filepath"
	"sort"
	"strings"

	"github.com/specterops/dawgs/cypher/models/cypher"
	"github.com/specterops/dawgs/graph"
	"github.com/specterops/dawgs/query"
	v2 "github.com/specterops/dawgs/query/v2"
)

type caseSpec struct {
	Path   string         `json:"path"`            // neo4j | v2 | format | rewrite
	Where  *term          `json:"where,omitempty"` // builder paths
	Tail   string         `json:"tail,omitempty"`  // id in tails / v2tails
	Query  string         `json:"query,omitempty"` // text paths
	Params map[string]any `json:"params,omitempty"`
}

func (c caseSpec) String() string {
	switch c.Path {
	case "neo4j":
		w := ""
		if c.Where != nil {
			w = "query.Where(" + c.Where.String() + "), "
		}
		return "neo4j.QueryBuilder{" + w + c.Tail + "}"
	case "v2":
		w := ""
		if c.Where != nil {
			w = ".Where(" + c.Where.String() + ")"
		}
		return "v2.New()" + w + c.Tail + ".Build()"
	}
	return fmt.Sprintf("%s %q params=%v", c.Path, c.Query, c.Params)
}

// ---- tails of the stable builder ------------------------------------------------------------------------------------------

var tails = map[string]func() []graph.Criteria{}
var tailOrder []string

func regTail(id string, f func() []graph.Criteria) {
	tails[id] = f
	tailOrder = append(tailOrder, id)
}

func one(c graph.Criteria) []graph.Criteria { return []graph.Criteria{c} }

func registerTails() {
	regTail("query.Returning(query.Node())", func() []graph.Criteria { return one(query.Returning(query.Node())) })
	regTail("query.Returning(query.Relationship())", func() []graph.Criteria { return one(query.Returning(query.Relationship())) })
	type itemSet struct {
		name string
		f    func() []graph.Criteria
	}
	items := []itemSet{
		{`query.NodeProperty("name")`, func() []graph.Criteria { return one(query.NodeProperty("name")) }},
		{"query.Count(query.Node())", func() []graph.Criteria { return one(query.Count(query.Node())) }},
		{"query.CountDistinct(query.Node())", func() []graph.Criteria { return one(query.CountDistinct(query.Node())) }},
		{"query.KindsOf(query.Node())", func() []graph.Criteria { return one(query.KindsOf(query.Node())) }},
		{"query.NodeID()", func() []graph.Criteria { return one(query.NodeID()) }},
		{`query.Node(), query.NodeProperty("odd key")`, func() []graph.Criteria { return []graph.Criteria{query.Node(), query.NodeProperty("odd key")} }},
		{`query.Size(query.NodeProperty("l"))`, func() []graph.Criteria { return one(query.Size(query.NodeProperty("l"))) }},
		{"query.Node()", func() []graph.Criteria { return one(query.Node()) }},
	}
	type mod struct {
		name string
		f    func() graph.Criteria
	}
	orders := []mod{{"", nil},
		{`query.OrderBy(query.NodeProperty("name"))`, func() graph.Criteria { return query.OrderBy(query.NodeProperty("name")) }},
		{`query.OrderBy(query.Order(query.NodeProperty("name"), query.Descending()))`, func() graph.Criteria {
			return query.OrderBy(query.Order(query.NodeProperty("name"), query.Descending()))
		}},
		{`query.OrderBy(query.Order(query.NodeProperty("a"), query.Ascending()), query.Order(query.NodeID(), query.Descending()))`, func() graph.Criteria {
			return query.OrderBy(query.Order(query.NodeProperty("a"), query.Ascending()), query.Order(query.NodeID(), query.Descending()))
		}},
		{`SortItems{{name asc},{id desc}}.FormatCypherOrder()`, func() graph.Criteria {
			return query.SortItems{{SortCriteria: query.NodeProperty("name"), Direction: query.SortDirectionAscending}, {SortCriteria: query.NodeID(), Direction: query.SortDirectionDescending}}.FormatCypherOrder()
		}},
	}
	limits := []mod{{"", nil}, {"query.Limit(0)", func() graph.Criteria { return query.Limit(0) }}, {"query.Limit(1)", func() graph.Criteria { return query.Limit(1) }}, {"query.Limit(10)", func() graph.Criteria { return query.Limit(10) }}}
	offsets := []mod{{"", nil}, {"query.Offset(0)", func() graph.Criteria { return query.Offset(0) }}, {"query.Offset(5)", func() graph.Criteria { return query.Offset(5) }}}
	for _, distinct := range []bool{false, true} {
		for _, it := range items {
			for _, o := range orders {
				for _, l := range limits {
					for _, s := range offsets {
						for _, inside := range []bool{false, true} { // modifiers as arguments of Returning, or as criteria of their own
							if inside && o.f == nil && l.f == nil && s.f == nil {
								continue
							}
							distinct, it, o, l, s, inside := distinct, it, o, l, s, inside
							fn := "query.Returning"
							if distinct {
								fn = "query.ReturningDistinct"
							}
							var names []string
							for _, m := range []mod{o, s, l} {
								if m.f != nil {
									names = append(names, m.name)
								}
							}
							id := fn + "(" + it.name
							if inside {
								id += sep(strings.Join(names, ", ")) + ")"
							} else {
								id += ")" + sep(strings.Join(names, ", "))
							}
							regTail(id, func() []graph.Criteria {
								args := it.f()
								var mods []graph.Criteria
								for _, m := range []mod{o, s, l} {
									if m.f != nil {
										mods = append(mods, m.f())
									}
								}
								if inside {
									args = append(args, mods...)
									mods = nil
								}
								var ret *cypher.Return
								if distinct {
									ret = query.ReturningDistinct(args...)
								} else {
									ret = query.Returning(args...)
								}
								return append([]graph.Criteria{ret}, mods...)
							})
						}
					}
				}
			}
		}
	}
	// updating clauses
	upd := func(id string, f func() graph.Criteria, ret func() graph.Criteria) {
		regTail("query.Update("+id+")", func() []graph.Criteria {
			out := []graph.Criteria{query.Update(f().(*cypher.UpdatingClause))}
			if ret != nil {
				out = append(out, ret())
			}
			return out
		})
	}
	retN := func() graph.Criteria { return query.Returning(query.Node()) }
	for _, v := range paramValues {
		v := v
		upd(fmt.Sprintf(`query.SetProperty(query.NodeProperty("x"), %s)`, v.name), func() graph.Criteria { return query.SetProperty(query.NodeProperty("x"), v.v) }, retN)
	}
	upd(`query.SetProperties(query.Node(), {"a": 1})`, func() graph.Criteria { return query.SetProperties(query.Node(), map[string]any{"a": 1}) }, retN)
	upd(`query.SetProperties(query.Node(), {"odd key": "a'b"})`, func() graph.Criteria {
		return query.SetProperties(query.Node(), map[string]any{"odd key": "a'b"})
	}, retN)
	upd(`query.DeleteProperty(query.NodeProperty("x"))`, func() graph.Criteria { return query.DeleteProperty(query.NodeProperty("x")) }, retN)
	upd(`query.DeleteProperties(query.Node(), "x", "odd key")`, func() graph.Criteria { return query.DeleteProperties(query.Node(), "x", "odd key") }, retN)
	upd("query.AddKind(query.Node(), A)", func() graph.Criteria { return query.AddKind(query.Node(), kindA) }, retN)
	for _, ks := range kindLists {
		ks := ks
		upd(fmt.Sprintf("query.AddKinds(query.Node(), [%s])", ks.name), func() graph.Criteria { return query.AddKinds(query.Node(), append(graph.Kinds{}, ks.v...)) }, retN)
		upd(fmt.Sprintf("query.DeleteKinds(query.Node(), [%s])", ks.name), func() graph.Criteria { return query.DeleteKinds(query.Node(), append(graph.Kinds{}, ks.v...)) }, retN)
	}
	upd("query.DeleteKind(query.Node(), A)", func() graph.Criteria { return query.DeleteKind(query.Node(), kindA) }, retN)
	upd("query.Delete(query.Node())", func() graph.Criteria { return query.Delete(query.Node()) }, nil)
	upd("query.Delete(query.Relationship())", func() graph.Criteria { return query.Delete(query.Relationship()) }, nil)
	upd(`query.SetProperty(query.RelationshipProperty("w"), 1)`, func() graph.Criteria { return query.SetProperty(query.RelationshipProperty("w"), 1) }, func() graph.Criteria { return query.Returning(query.Relationship()) })
	for _, ks := range kindLists {
		ks := ks
		upd(fmt.Sprintf("query.Create(query.NodePattern([%s], $props))", ks.name), func() graph.Criteria {
			return query.Create(query.NodePattern(append(graph.Kinds{}, ks.v...), query.Parameter(map[string]any{"a": 1})))
		}, retN)
	}
	upd("query.Create(query.Node())", func() graph.Criteria { return query.Create(query.Node()) }, retN)
	for _, dir := range []graph.Direction{graph.DirectionOutbound, graph.DirectionInbound} {
		dir := dir
		upd(fmt.Sprintf("query.Create(query.Start(), query.RelationshipPattern(A, $props, %v), query.End())", dir), func() graph.Criteria {
			return query.Create(query.Start(), query.RelationshipPattern(kindA, query.Parameter(map[string]any{"w": 1.5}), dir), query.End())
		}, func() graph.Criteria { return query.Returning(query.Relationship()) })
	}
	upd("query.Updatef(provider)", func() graph.Criteria {
		return query.Updatef(func() graph.Criteria { return query.SetProperty(query.NodeProperty("x"), 1) })[0]
	}, retN)
}

// ---- query/v2 -------------------------------------------------------------------------------------------------------------

var v2tails = map[string]func(v2.QueryBuilder) v2.QueryBuilder{}
var v2tailOrder []string

func regV2Tail(id string, f func(v2.QueryBuilder) v2.QueryBuilder) {
	v2tails[id] = f
	v2tailOrder = append(v2tailOrder, id)
}

func registerV2() {
	add := func(id, fam string, f func() cypher.Expression) {
		reg(id, f)
		leafFamily[id] = fam
	}
	type ent struct {
		name string
		prop func(string) v2.PropertyContinuation
		id   func() v2.IdentityContinuation
		fam  string
	}
	ents := []ent{
		{"v2.Node()", func(p string) v2.PropertyContinuation { return v2.Node().Property(p) }, func() v2.IdentityContinuation { return v2.Node().ID() }, "n"},
		{"v2.Relationship()", func(p string) v2.PropertyContinuation { return v2.Relationship().Property(p) }, func() v2.IdentityContinuation { return v2.Relationship().ID() }, "r"},
		{"v2.Start()", func(p string) v2.PropertyContinuation { return v2.Start().Property(p) }, func() v2.IdentityContinuation { return v2.Start().ID() }, "r"},
		{"v2.End()", func(p string) v2.PropertyContinuation { return v2.End().Property(p) }, func() v2.IdentityContinuation { return v2.End().ID() }, "r"},
	}
	type cmpf struct {
		name string
		f    func(v2.Comparable, any) cypher.Expression
	}
	cmps := []cmpf{
		{"Equals", func(c v2.Comparable, v any) cypher.Expression { return c.Equals(v) }},
		{"GreaterThan", func(c v2.Comparable, v any) cypher.Expression { return c.GreaterThan(v) }},
		{"GreaterThanOrEqualTo", func(c v2.Comparable, v any) cypher.Expression { return c.GreaterThanOrEqualTo(v) }},
		{"LessThan", func(c v2.Comparable, v any) cypher.Expression { return c.LessThan(v) }},
		{"LessThanOrEqualTo", func(c v2.Comparable, v any) cypher.Expression { return c.LessThanOrEqualTo(v) }},
		{"In", func(c v2.Comparable, v any) cypher.Expression { return c.In(v) }},
		{"Contains", func(c v2.Comparable, v any) cypher.Expression { return c.Contains(v) }},
		{"StartsWith", func(c v2.Comparable, v any) cypher.Expression { return c.StartsWith(v) }},
		{"EndsWith", func(c v2.Comparable, v any) cypher.Expression { return c.EndsWith(v) }},
	}
	for ei, e := range ents {
		e := e
		for _, c := range cmps {
			c := c
			if ei > 1 && c.name != "Equals" {
				continue
			}
			for _, v := range paramValues {
				v := v
				add(fmt.Sprintf(`v2:%s.Property("name").%s(%s)`, e.name, c.name, v.name), e.fam, func() cypher.Expression { return c.f(e.prop("name"), v.v) })
			}
			for _, l := range literalValues() {
				l := l
				if ei > 0 && c.name != "Equals" {
					continue
				}
				add(fmt.Sprintf(`v2:%s.Property("name").%s(%s)`, e.name, c.name, l.name), e.fam, func() cypher.Expression { return c.f(e.prop("name"), l.v()) })
			}
		}
		add(fmt.Sprintf(`v2:%s.Property("odd key").IsNull()`, e.name), e.fam, func() cypher.Expression { return e.prop("odd key").IsNull() })
		add(fmt.Sprintf(`v2:%s.Property("name").IsNotNull()`, e.name), e.fam, func() cypher.Expression { return e.prop("name").IsNotNull() })
		add(fmt.Sprintf(`v2:%s.ID().Equals(1)`, e.name), e.fam, func() cypher.Expression { return e.id().Equals(1) })
		add(fmt.Sprintf(`v2:%s.ID().In([]int64{1,2})`, e.name), e.fam, func() cypher.Expression { return e.id().In([]int64{1, 2}) })
	}
	for _, ks := range kindLists {
		ks := ks
		add(fmt.Sprintf("v2:v2.Node().Kinds().HasOneOf([%s])", ks.name), "n", func() cypher.Expression { return v2.Node().Kinds().HasOneOf(append(graph.Kinds{}, ks.v...)) })
		add(fmt.Sprintf("v2:v2.Relationship().Kind().IsOneOf([%s])", ks.name), "r", func() cypher.Expression { return v2.Relationship().Kind().IsOneOf(append(graph.Kinds{}, ks.v...)) })
		add(fmt.Sprintf("v2:v2.Start().Kinds().HasOneOf([%s])", ks.name), "r", func() cypher.Expression { return v2.Start().Kinds().HasOneOf(append(graph.Kinds{}, ks.v...)) })
	}
	add("v2:v2.Node().Kinds().Has(A)", "n", func() cypher.Expression { return v2.Node().Kinds().Has(kindA) })
	add("v2:v2.Relationship().Kind().Is(A)", "r", func() cypher.Expression { return v2.Relationship().Kind().Is(kindA) })

	regV2Tail(".Return(v2.Node())", func(b v2.QueryBuilder) v2.QueryBuilder { return b.Return(v2.Node()) })
	regV2Tail(".Return(v2.Relationship())", func(b v2.QueryBuilder) v2.QueryBuilder { return b.Return(v2.Relationship()) })
	type m struct {
		name string
		f    func(v2.QueryBuilder) v2.QueryBuilder
	}
	rets := []m{
		{`.Return(v2.Node().Property("name"))`, func(b v2.QueryBuilder) v2.QueryBuilder { return b.Return(v2.Node().Property("name")) }},
		{`.ReturnDistinct(v2.Node())`, func(b v2.QueryBuilder) v2.QueryBuilder { return b.ReturnDistinct(v2.Node()) }},
		{`.Return(v2.Node().Count())`, func(b v2.QueryBuilder) v2.QueryBuilder { return b.Return(v2.Node().Count()) }},
		{`.Return(v2.As(v2.Node().Property("odd key"), "k"), v2.Node().ID())`, func(b v2.QueryBuilder) v2.QueryBuilder {
			return b.Return(v2.As(v2.Node().Property("odd key"), "k"), v2.Node().ID())
		}},
	}
	ords := []m{{"", nil},
		{`.OrderBy(v2.Asc(v2.Node().Property("name")))`, func(b v2.QueryBuilder) v2.QueryBuilder { return b.OrderBy(v2.Asc(v2.Node().Property("name"))) }},
		{`.OrderBy(v2.Desc(v2.Node().Property("name")))`, func(b v2.QueryBuilder) v2.QueryBuilder { return b.OrderBy(v2.Desc(v2.Node().Property("name"))) }},
		{`.OrderBy(v2.Asc(v2.Node().Property("a")), v2.Desc(v2.Node().ID()))`, func(b v2.QueryBuilder) v2.QueryBuilder {
			return b.OrderBy(v2.Asc(v2.Node().Property("a")), v2.Desc(v2.Node().ID()))
		}},
		{`.OrderBy(v2.Order(v2.Node().Property("a"), v2.SortDescending))`, func(b v2.QueryBuilder) v2.QueryBuilder {
			return b.OrderBy(v2.Order(v2.Node().Property("a"), v2.SortDescending))
		}},
	}
	lims := []m{{"", nil}, {".Limit(0)", func(b v2.QueryBuilder) v2.QueryBuilder { return b.Limit(0) }}, {".Limit(10)", func(b v2.QueryBuilder) v2.QueryBuilder { return b.Limit(10) }}}
	skips := []m{{"", nil}, {".Skip(0)", func(b v2.QueryBuilder) v2.QueryBuilder { return b.Skip(0) }}, {".Skip(5)", func(b v2.QueryBuilder) v2.QueryBuilder { return b.Skip(5) }}}
	for _, r := range rets {
		for _, o := range ords {
			for _, l := range lims {
				for _, s := range skips {
					r, o, l, s := r, o, l, s
					regV2Tail(r.name+o.name+s.name+l.name, func(b v2.QueryBuilder) v2.QueryBuilder {
						b = r.f(b)
						for _, x := range []m{o, s, l} {
							if x.f != nil {
								b = x.f(b)
							}
						}
						return b
					})
				}
			}
		}
	}
	for _, v := range paramValues {
		v := v
		regV2Tail(fmt.Sprintf(`.Update(v2.Node().Property("x").Set(%s)).Return(v2.Node())`, v.name), func(b v2.QueryBuilder) v2.QueryBuilder {
			return b.Update(v2.Node().Property("x").Set(v.v)).Return(v2.Node())
		})
	}
	regV2Tail(`.Update(v2.Node().Property("x").Remove()).Return(v2.Node())`, func(b v2.QueryBuilder) v2.QueryBuilder {
		return b.Update(v2.Node().Property("x").Remove()).Return(v2.Node())
	})
	regV2Tail(`.Update(v2.Node().SetProperties({"a":1,"odd key":"a'b"})).Return(v2.Node())`, func(b v2.QueryBuilder) v2.QueryBuilder {
		return b.Update(v2.Node().SetProperties(map[string]any{"a": 1, "odd key": "a'b"})).Return(v2.Node())
	})
	regV2Tail(`.Update(v2.Node().RemoveProperties(["a","odd key"])).Return(v2.Node())`, func(b v2.QueryBuilder) v2.QueryBuilder {
		return b.Update(v2.Node().RemoveProperties([]string{"a", "odd key"})).Return(v2.Node())
	})
	for _, ks := range kindLists[1:] {
		ks := ks
		regV2Tail(fmt.Sprintf(".Update(v2.Node().Kinds().Add([%s])).Return(v2.Node())", ks.name), func(b v2.QueryBuilder) v2.QueryBuilder {
			return b.Update(v2.Node().Kinds().Add(append(graph.Kinds{}, ks.v...))).Return(v2.Node())
		})
		regV2Tail(fmt.Sprintf(".Update(v2.Node().Kinds().Remove([%s])).Return(v2.Node())", ks.name), func(b v2.QueryBuilder) v2.QueryBuilder {
			return b.Update(v2.Node().Kinds().Remove(append(graph.Kinds{}, ks.v...))).Return(v2.Node())
		})
	}
	regV2Tail(".Delete(v2.Node())", func(b v2.QueryBuilder) v2.QueryBuilder { return b.Delete(v2.Node()) })
	regV2Tail(".Delete(v2.Relationship())", func(b v2.QueryBuilder) v2.QueryBuilder { return b.Delete(v2.Relationship()) })
	regV2Tail(`.Create(v2.Node().NodePattern([A, B], $props)).Return(v2.Node())`, func(b v2.QueryBuilder) v2.QueryBuilder {
		return b.Create(v2.Node().NodePattern(graph.Kinds{kindA, kindB}, v2.Parameter(map[string]any{"a": 1}))).Return(v2.Node())
	})
}

// ---- text cases -----------------------------------------------------------------------------------------------------------

var textLeaves = []string{"n.a = 1", "n:A:B", "n.s contains 'x'", "n.t < datetime()"}

// renderText prints a skeleton over the abstract ops as fully parenthesised Cypher text.
func renderText(t *term, leaves []string) string {
	switch t.Op {
	case "leaf":
		var i int
		fmt.Sscanf(t.Leaf, "L%d", &i)
		return leaves[i%len(leaves)]
	case "t.not":
		return "not (" + renderText(t.Args[0], leaves) + ")"
	case "t.paren":
		return "(" + renderText(t.Args[0], leaves) + ")"
	}
	op := map[string]string{"t.and": " and ", "t.or": " or ", "t.xor": " xor "}[t.Op]
	parts := make([]string, len(t.Args))
	for i, a := range t.Args {
		parts[i] = "(" + renderText(a, leaves) + ")"
	}
	return strings.Join(parts, op)
}

func corpusTexts(repo string) []string {
	seen := map[string]bool{}
	var out []string
	add := func(s string) {
		s = strings.TrimSpace(s)
		if s != "" && !seen[s] && strings.ContainsAny(s, "( ") {
			seen[s] = true
			out = append(out, s)
		}
	}
	var collect func(v any)
	collect = func(v any) {
		switch t := v.(type) {
		case string:
			add(t)
		case []any:
			for _, x := range t {
				collect(x)
			}
		case map[string]any:
			ks := make([]string, 0, len(t))
			for k := range t {
				ks = append(ks, k)
			}
			sort.Strings(ks)
			for _, k := range ks {
				collect(t[k])
			}
		}
	}
	var files []string
	for _, root := range []string{"cypher/test/cases", "integration/testdata"} {
		_ = filepath.Walk(filepath.Join(repo, root), func(p string, info os.FileInfo, err error) error {
			if err == nil && !info.IsDir() && strings.HasSuffix(p, ".json") {
				files = append(files, p)
			}
			return nil
		})
	}
	sort.Strings(files)
	for _, f := range files {
		if b, err := os.ReadFile(f); err == nil {
			var doc any
			if jsonUnmarshal(b, &doc) == nil {
				collect(doc)
			}
		}
	}
	sqlFiles, _ := filepath.Glob(filepath.Join(repo, "cypher/models/pgsql/test/translation_cases/*.sql"))
	sort.Strings(sqlFiles)
	for _, f := range sqlFiles {
		if b, err := os.ReadFile(f); err == nil {
			for _, line := range strings.Split(string(b), "\n") {
				if rest, ok := strings.CutPrefix(line, "-- case:"); ok {
					add(rest)
				}
			}
		}
	}
	return out
}
