package main

// "Meaning of structure" of a query model, independent of the emitter under test:
//
//   - canon(e): a canonical S-expression of a non-boolean subtree (operator, operands, literal type+value, parameter
//     type+value, kinds, property keys, function names ...) – two leaves are "exactly equal" iff their canons are equal;
//   - skeleton(e): the boolean structure above the leaves (AND / OR / XOR / NOT, Parenthetical = explicit group), with
//     leaf atoms identified by canon; a kind test over several kinds is expanded into one atom per kind joined by OR
//     (any-of) or AND (all-of), so the all-of/any-of reading is part of the truth table;
//   - tables: evaluation of a skeleton under ALL assignments of its atoms to {T, F, NULL} with Cypher's 3-valued logic.
//
// A skeleton can be evaluated under "deviation switches" which read the model the way a faithless emission would; they
// are used only to *name* the root cause of a difference, never to excuse it.

import (
	"fmt"
	"reflect"
	"sort"
	"strings"
	"time"

	"github.com/specterops/dawgs/cypher/models/cypher"
	"github.com/specterops/dawgs/graph"
)

// ---- canon ---------------------------------------------------------------------------------------------------------------

type canonCtx struct {
	params map[string]any // parameter symbol -> value for text-side models; nil for builder-side models
}

func valueRepr(v any) string {
	switch t := v.(type) {
	case nil:
		return "null"
	case int:
		return fmt.Sprintf("int:%d", t)
	case int8, int16, int32, int64:
		return fmt.Sprintf("int:%d", reflect.ValueOf(v).Int())
	case uint, uint8, uint16, uint32, uint64:
		return fmt.Sprintf("int:%d", reflect.ValueOf(v).Uint())
	case float32:
		return fmt.Sprintf("float:%v", float64(t))
	case float64:
		return fmt.Sprintf("float:%v", t)
	case bool:
		return fmt.Sprintf("bool:%v", t)
	case string:
		return fmt.Sprintf("string:%q", t)
	case time.Time:
		return "time:" + t.UTC().Format(time.RFC3339Nano)
	case graph.Kinds:
		return "kinds:" + strings.Join(t.Strings(), "|")
	}
	rv := reflect.ValueOf(v)
	switch rv.Kind() {
	case reflect.Slice, reflect.Array:
		parts := make([]string, rv.Len())
		for i := range parts {
			parts[i] = valueRepr(rv.Index(i).Interface())
		}
		return fmt.Sprintf("%T[%s]", v, strings.Join(parts, ","))
	case reflect.Map:
		keys := rv.MapKeys()
		parts := make([]string, len(keys))
		for i, k := range keys {
			parts[i] = fmt.Sprintf("%v=%s", k.Interface(), valueRepr(rv.MapIndex(k).Interface()))
		}
		sort.Strings(parts)
		return fmt.Sprintf("%T{%s}", v, strings.Join(parts, ","))
	}
	return fmt.Sprintf("%T:%v", v, v)
}

func isTemporalCall(e cypher.Expression) (*cypher.FunctionInvocation, bool) {
	switch t := e.(type) {
	case *cypher.Parenthetical:
		return isTemporalCall(t.Expression)
	case *cypher.FunctionInvocation:
		switch strings.ToLower(t.Name) {
		case cypher.DateFunction, cypher.TimeFunction, cypher.LocalTimeFunction, cypher.DateTimeFunction, cypher.LocalDateTimeFunction:
			return t, true
		}
	case *cypher.ArithmeticExpression:
		return isTemporalCall(t.Left)
	}
	return nil, false
}

func (c *canonCtx) list(es []cypher.Expression) string {
	parts := make([]string, len(es))
	for i, e := range es {
		parts[i] = c.canon(e)
	}
	return strings.Join(parts, " ")
}

func kindsRepr(k graph.Kinds) string { return strings.Join(k.Strings(), ",") }

// canon renders any model node. Boolean connectives are rendered structurally too (used for projections etc.), but the
// where-clause comparison goes through skeleton() instead.
func (c *canonCtx) canon(e any) string {
	switch t := e.(type) {
	case nil:
		return "nil"
	case *cypher.Variable:
		if t == nil {
			return "nil"
		}
		return "var:" + t.Symbol
	case *cypher.Literal:
		if t.Null {
			return "lit:null"
		}
		if s, ok := t.Value.(string); ok {
			return "lit:string:" + s // source form, quotes included
		}
		switch t.Value.(type) {
		case *cypher.ListLiteral, cypher.MapLiteral, *cypher.Parameter, *cypher.Variable:
			return "lit:" + c.canon(t.Value)
		}
		return "lit:" + valueRepr(t.Value)
	case *cypher.Parameter:
		if t == nil {
			return "nil"
		}
		if c.params != nil {
			v, ok := c.params[t.Symbol]
			if !ok {
				return "param:<unbound " + t.Symbol + ">"
			}
			return "param:" + valueRepr(v)
		}
		return "param:" + valueRepr(t.Value)
	case *cypher.PropertyLookup:
		return "(prop " + c.canon(t.Atom) + " " + fmt.Sprintf("%q", t.Symbol) + ")"
	case *cypher.FunctionInvocation:
		d := ""
		if t.Distinct {
			d = " distinct"
		}
		return "(call " + strings.ToLower(strings.Join(append(append([]string{}, t.Namespace...), t.Name), ".")) + d + " " + c.list(t.Arguments) + ")"
	case *cypher.Parenthetical:
		return "(group " + c.canon(t.Expression) + ")"
	case *cypher.Negation:
		return "(not " + c.canon(t.Expression) + ")"
	case *cypher.Conjunction:
		return "(and " + c.list(t.Expressions) + ")"
	case *cypher.Disjunction:
		return "(or " + c.list(t.Expressions) + ")"
	case *cypher.ExclusiveDisjunction:
		return "(xor " + c.list(t.Expressions) + ")"
	case *cypher.Comparison:
		var sb strings.Builder
		sb.WriteString("(cmp ")
		operands := []cypher.Expression{t.Left}
		for _, p := range t.Partials {
			operands = append(operands, p.Right)
		}
		// deliberate driver rewrite (drivers/neo4j/query_rewrite.go): a property compared with a temporal value is
		// wrapped in the same temporal function; both spellings denote the same comparison
		anyTemporal := false
		for _, o := range operands {
			if _, ok := isTemporalCall(o); ok {
				anyTemporal = true
			}
		}
		render := func(o cypher.Expression) string {
			if anyTemporal {
				if f, ok := o.(*cypher.FunctionInvocation); ok && len(f.Arguments) == 1 {
					if _, isT := isTemporalCall(f); isT {
						if pl, ok := f.Arguments[0].(*cypher.PropertyLookup); ok {
							return c.canon(pl)
						}
					}
				}
			}
			return c.canon(o)
		}
		sb.WriteString(render(t.Left))
		for _, p := range t.Partials {
			sb.WriteString(" " + strings.ToLower(string(p.Operator)) + " " + render(p.Right))
		}
		sb.WriteString(")")
		return sb.String()
	case *cypher.PartialComparison:
		return "(pcmp " + string(t.Operator) + " " + c.canon(t.Right) + ")"
	case *cypher.ArithmeticExpression:
		if len(t.Partials) == 0 {
			return c.canon(t.Left) // the parser wraps every operand of a unary sign in a partial-less arithmetic node
		}
		var sb strings.Builder
		sb.WriteString("(arith " + c.canon(t.Left))
		for _, p := range t.Partials {
			sb.WriteString(" " + string(p.Operator) + " " + c.canon(p.Right))
		}
		sb.WriteString(")")
		return sb.String()
	case *cypher.UnaryAddOrSubtractExpression:
		// `-1` is read by the parser as unary minus applied to 1: the same literal
		inner := c.canon(t.Right)
		if t.Operator == cypher.OperatorSubtract {
			for _, pre := range []string{"lit:int:", "lit:float:"} {
				if rest, ok := strings.CutPrefix(inner, pre); ok && !strings.HasPrefix(rest, "-") {
					return pre + "-" + rest
				}
			}
		}
		return "(unary " + string(t.Operator) + " " + inner + ")"
	case *cypher.KindMatcher:
		mode := "anyof"
		if t.IsExclusive && len(t.Kinds) > 1 {
			mode = "allof"
		}
		return "(kind " + mode + " " + c.canon(t.Reference) + " " + kindsRepr(t.Kinds) + ")"
	case graph.Kinds:
		return "kinds:" + kindsRepr(t)
	case *cypher.ListLiteral:
		return "(list " + c.list(*t) + ")"
	case cypher.MapLiteral:
		keys := make([]string, 0, len(t))
		for k := range t {
			keys = append(keys, k)
		}
		sort.Strings(keys)
		var sb strings.Builder
		sb.WriteString("(map")
		for _, k := range keys {
			fmt.Fprintf(&sb, " %q=%s", k, c.canon(t[k]))
		}
		sb.WriteString(")")
		return sb.String()
	case *cypher.Properties:
		if t == nil {
			return "nil"
		}
		if t.Map != nil {
			return c.canon(t.Map)
		}
		if t.Parameter != nil {
			// a pattern-property parameter and the map of per-key parameters the driver rewrites it into are the same
			var v any = t.Parameter.Value
			if c.params != nil {
				v = c.params[t.Parameter.Symbol]
			}
			if m, ok := v.(map[string]any); ok {
				keys := make([]string, 0, len(m))
				for k := range m {
					keys = append(keys, k)
				}
				sort.Strings(keys)
				var sb strings.Builder
				sb.WriteString("(map")
				for _, k := range keys {
					fmt.Fprintf(&sb, " %q=param:%s", k, valueRepr(m[k]))
				}
				sb.WriteString(")")
				return sb.String()
			}
			return c.canon(t.Parameter)
		}
		return "(map)"
	case *cypher.PatternPredicate:
		return "(patternpred " + c.elements(t.PatternElements) + ")"
	case *cypher.ProjectionItem:
		return "(item " + c.canon(t.Expression) + " as " + c.canon(t.Alias) + ")"
	case *cypher.Quantifier:
		return "(quant " + string(t.Type) + " " + c.canon(t.Filter) + ")"
	case *cypher.FilterExpression:
		if t == nil {
			return "nil"
		}
		return "(filter " + c.canon(t.Specifier) + " " + c.canon(t.Where) + ")"
	case *cypher.IDInCollection:
		if t == nil {
			return "nil"
		}
		return "(idin " + c.canon(t.Variable) + " " + c.canon(t.Expression) + ")"
	case *cypher.Where:
		if t == nil {
			return "nil"
		}
		return "(where " + c.list(t.Expressions) + ")"
	case *cypher.RangeQuantifier:
		return "range:" + t.Value
	case *cypher.Limit:
		if t == nil {
			return "nil"
		}
		return "(limit " + c.canon(t.Value) + ")"
	case *cypher.Skip:
		if t == nil {
			return "nil"
		}
		return "(skip " + c.canon(t.Value) + ")"
	case cypher.Operator:
		return "op:" + string(t)
	case *cypher.NodePattern:
		return c.nodePattern(t)
	case *cypher.RelationshipPattern:
		return c.relPattern(t)
	}
	return fmt.Sprintf("<%T>", e)
}

// patternProps: the builders store a bare *Parameter as pattern properties, the parser a *Properties wrapping it
func (c *canonCtx) patternProps(p cypher.Expression) string {
	if p == nil {
		return "nil"
	}
	if param, ok := p.(*cypher.Parameter); ok {
		return c.canon(&cypher.Properties{Parameter: param})
	}
	return c.canon(p)
}

func (c *canonCtx) nodePattern(n *cypher.NodePattern) string {
	props := c.patternProps(n.Properties)
	return "(node " + c.canon(n.Variable) + " [" + kindsRepr(n.Kinds) + "] " + props + ")"
}

func (c *canonCtx) relPattern(r *cypher.RelationshipPattern) string {
	rng := "norange"
	if r.Range != nil {
		f := func(p *int64) string {
			if p == nil {
				return "_"
			}
			return fmt.Sprint(*p)
		}
		rng = "range(" + f(r.Range.StartIndex) + ".." + f(r.Range.EndIndex) + ")"
	}
	props := c.patternProps(r.Properties)
	// DirectionBoth and the undirected spelling are the same pattern; outbound/inbound are kept
	return "(rel " + c.canon(r.Variable) + " [" + kindsRepr(r.Kinds) + "] dir" + fmt.Sprint(int(r.Direction)) + " " + rng + " " + props + ")"
}

func (c *canonCtx) elements(es []*cypher.PatternElement) string {
	parts := make([]string, len(es))
	for i, e := range es {
		parts[i] = c.canon(e.Element)
	}
	return strings.Join(parts, " ")
}

func (c *canonCtx) patternPart(p *cypher.PatternPart) string {
	return fmt.Sprintf("(part %s sp=%v asp=%v %s)", c.canon(p.Variable), p.ShortestPathPattern, p.AllShortestPathsPattern, c.elements(p.PatternElements))
}

// ---- boolean skeleton ----------------------------------------------------------------------------------------------------

type bkind uint8

const (
	bAtom bkind = iota
	bAnd
	bOr
	bXor
	bNot
	bGroup
)

type bnode struct {
	kind bkind
	atom string // bAtom
	kids []*bnode

	kindTest bool // this node is (the expansion of) one kind test; always one unit
	allOf    bool // ... with all-of reading (IsExclusive and several kinds)
	onRel    bool // ... on the relationship variable of the builder queries ("r")

	strPredOn string // bAtom: canon of the left operand when the atom is a STARTS WITH / ENDS WITH / CONTAINS comparison
	isNullOf  string // bAtom: canon of the operand when the atom is `x IS NULL`
}

func (n *bnode) connective() bool {
	return (n.kind == bAnd || n.kind == bOr || n.kind == bXor) && !n.kindTest
}

func strip(n *bnode) *bnode {
	for n != nil && (n.kind == bGroup || (n.connective() && len(n.kids) == 1)) {
		n = n.kids[0]
	}
	return n
}

func unparen(e cypher.Expression) cypher.Expression {
	for {
		p, ok := e.(*cypher.Parenthetical)
		if !ok {
			return e
		}
		e = p.Expression
	}
}

func (c *canonCtx) skeleton(e cypher.Expression) *bnode {
	list := func(k bkind, es []cypher.Expression) *bnode {
		n := &bnode{kind: k}
		for _, x := range es {
			n.kids = append(n.kids, c.skeleton(x))
		}
		if len(n.kids) == 1 {
			return n.kids[0] // a one-element list means its element (and is emitted as such)
		}
		return n
	}
	switch t := e.(type) {
	case *cypher.Parenthetical:
		return &bnode{kind: bGroup, kids: []*bnode{c.skeleton(t.Expression)}}
	case *cypher.Negation:
		return &bnode{kind: bNot, kids: []*bnode{c.skeleton(t.Expression)}}
	case *cypher.Conjunction:
		return list(bAnd, t.Expressions)
	case *cypher.Disjunction:
		return list(bOr, t.Expressions)
	case *cypher.ExclusiveDisjunction:
		return list(bXor, t.Expressions)
	case *cypher.KindMatcher:
		onRel := false
		if v, ok := t.Reference.(*cypher.Variable); ok && v != nil && v.Symbol == "r" {
			onRel = true
		}
		ref := c.canon(t.Reference)
		switch len(t.Kinds) {
		case 0:
			return &bnode{kind: bAtom, atom: "(kind none " + ref + ")", kindTest: true, onRel: onRel}
		case 1:
			return &bnode{kind: bAtom, atom: "(kind " + ref + " " + t.Kinds[0].String() + ")", kindTest: true, onRel: onRel}
		}
		n := &bnode{kind: bOr, kindTest: true, onRel: onRel}
		if t.IsExclusive && !onRel {
			// a relationship has exactly one kind: the PostgreSQL translator defines every relationship kind test as
			// any-of ("Edge kind checking is a strict equality, so the IsExclusive condition does not apply")
			n.kind, n.allOf = bAnd, true
		}
		for _, k := range t.Kinds {
			n.kids = append(n.kids, &bnode{kind: bAtom, atom: "(kind " + ref + " " + k.String() + ")"})
		}
		return n
	case *cypher.Comparison:
		n := &bnode{kind: bAtom, atom: c.canon(t)}
		if len(t.Partials) == 1 && t.Partials[0] != nil {
			switch t.Partials[0].Operator {
			case cypher.OperatorStartsWith, cypher.OperatorEndsWith, cypher.OperatorContains:
				n.strPredOn = c.canon(t.Left)
			case cypher.OperatorIs:
				if l, ok := t.Partials[0].Right.(*cypher.Literal); ok && l != nil && l.Null {
					n.isNullOf = c.canon(t.Left)
				}
			}
		}
		return n
	}
	return &bnode{kind: bAtom, atom: c.canon(e)}
}

type tv uint8 // three-valued truth

const (
	vF tv = iota
	vT
	vN
)

func not3(a tv) tv {
	switch a {
	case vT:
		return vF
	case vF:
		return vT
	}
	return vN
}
func and3(a, b tv) tv {
	if a == vF || b == vF {
		return vF
	}
	if a == vT && b == vT {
		return vT
	}
	return vN
}
func or3(a, b tv) tv {
	if a == vT || b == vT {
		return vT
	}
	if a == vF && b == vF {
		return vF
	}
	return vN
}
func xor3(a, b tv) tv {
	if a == vN || b == vN {
		return vN
	}
	if a != b {
		return vT
	}
	return vF
}

// deviations: each switch reads the model the way one specific faithless emission would. All off = the model's meaning.
type deviations struct {
	xorUnderAnd   bool // an ExclusiveDisjunction directly below a Conjunction loses its grouping
	orUnderAndXor bool // a bare Disjunction directly below a Conjunction / ExclusiveDisjunction loses its grouping
	listUnderNot  bool // a bare connective directly below a Negation loses its grouping (NOT then binds its first operand)
	allOfAsAnyOf  bool // an all-of kind test is read as any-of
	relKindHoist  bool // kind tests on the relationship variable outside negations are pulled out of the connective they stand in, merged into one any-of and required globally
	notNotAsNot   bool // `not not x` (a Negation directly below a Negation, no parentheses) is read back as a single negation
}

var deviationNames = []string{"xor-grouping-lost", "or-grouping-lost", "not-grouping-lost", "kind-all-of-emitted-as-any-of", "relationship-kind-test-hoisted-out-of-its-connective", "stacked-not-read-back-as-single-not"}

const deviationMasks = 64

func deviationSet(mask int) deviations {
	return deviations{mask&1 != 0, mask&2 != 0, mask&4 != 0, mask&8 != 0, mask&16 != 0, mask&32 != 0}
}

var prec = map[bkind]int{bOr: 1, bXor: 2, bAnd: 3}

type token struct {
	op   string // "atom" "(" ")" "and" "or" "xor" "not" "true"
	atom string
}

// hoist removes relationship kind tests that are not below a negation; returns the remaining tree (nil when nothing is
// left) and appends the hoisted kind atoms.
func hoist(n *bnode, underNot bool, hoisted *[]string) *bnode {
	if n == nil {
		return nil
	}
	if n.kindTest && n.onRel && !underNot {
		collectAtoms(n, hoisted)
		return nil
	}
	switch n.kind {
	case bAtom:
		return n
	case bNot:
		k := hoist(n.kids[0], true, hoisted)
		if k == nil {
			return nil
		}
		return &bnode{kind: bNot, kids: []*bnode{k}}
	case bGroup:
		k := hoist(n.kids[0], underNot, hoisted)
		if k == nil {
			return nil
		}
		return &bnode{kind: bGroup, kids: []*bnode{k}}
	}
	out := &bnode{kind: n.kind, kindTest: n.kindTest, allOf: n.allOf, onRel: n.onRel}
	for _, kid := range n.kids {
		if k := hoist(kid, underNot, hoisted); k != nil {
			out.kids = append(out.kids, k)
		}
	}
	if len(out.kids) == 0 {
		return nil
	}
	return out
}

// collectGuards records, for every string predicate atom below n, the spelling of its null guard atom.
func collectGuards(n *bnode, out map[string]string) {
	if n == nil {
		return
	}
	if n.kind == bAtom && n.strPredOn != "" {
		out[n.atom] = "(cmp " + n.strPredOn + " is lit:null)"
	}
	for _, k := range n.kids {
		collectGuards(k, out)
	}
}

func collectAtoms(n *bnode, out *[]string) {
	if n.kind == bAtom {
		*out = append(*out, n.atom)
	}
	for _, k := range n.kids {
		collectAtoms(k, out)
	}
}

func linearise(n *bnode, d deviations, out *[]token) {
	grouped := func(f func()) {
		*out = append(*out, token{op: "("})
		f()
		*out = append(*out, token{op: ")"})
	}
	opName := map[bkind]string{bAnd: "and", bOr: "or", bXor: "xor"}
	switch n.kind {
	case bAtom:
		*out = append(*out, token{op: "atom", atom: n.atom})
	case bGroup:
		grouped(func() { linearise(n.kids[0], d, out) })
	case bNot:
		k := n.kids[0]
		*out = append(*out, token{op: "not"})
		if k.connective() && len(k.kids) > 1 && !d.listUnderNot {
			grouped(func() { linearise(k, d, out) })
		} else {
			linearise(k, d, out)
		}
	default:
		if len(n.kids) == 0 {
			*out = append(*out, token{op: "true"})
			return
		}
		if n.kindTest {
			op := opName[n.kind]
			if n.allOf && d.allOfAsAnyOf {
				op = "or"
			}
			grouped(func() {
				for i, k := range n.kids {
					if i > 0 {
						*out = append(*out, token{op: op})
					}
					linearise(k, d, out)
				}
			})
			return
		}
		for i, k := range n.kids {
			if i > 0 {
				*out = append(*out, token{op: opName[n.kind]})
			}
			// a nested connective needs parentheses only when it binds looser than its parent (OR < XOR < AND); the same
			// or a tighter connective reads the same inline, which is also how the emitter writes it
			if k.connective() && len(k.kids) > 1 && prec[k.kind] < prec[n.kind] {
				dropped := false
				switch {
				case n.kind == bAnd && k.kind == bXor:
					dropped = d.xorUnderAnd
				case (n.kind == bAnd || n.kind == bXor) && k.kind == bOr:
					dropped = d.orUnderAndXor
				}
				if !dropped {
					grouped(func() { linearise(k, d, out) })
					continue
				}
			}
			linearise(k, d, out)
		}
	}
}

// expr is the result of parsing a token stream with Cypher precedence: OR < XOR < AND < NOT.
type expr struct {
	op   string // "atom" "true" "not" "and" "or" "xor"
	atom int
	a, b *expr
}

type tparser struct {
	toks  []token
	pos   int
	index map[string]int
}

func (p *tparser) peek() string {
	if p.pos < len(p.toks) {
		return p.toks[p.pos].op
	}
	return ""
}

func (p *tparser) binary(ops string, next func() *expr) *expr {
	l := next()
	for p.peek() == ops {
		p.pos++
		r := next()
		l = &expr{op: ops, a: l, b: r}
	}
	return l
}

func (p *tparser) parseOr() *expr  { return p.binary("or", p.parseXor) }
func (p *tparser) parseXor() *expr { return p.binary("xor", p.parseAnd) }
func (p *tparser) parseAnd() *expr { return p.binary("and", p.parseNot) }
func (p *tparser) parseNot() *expr {
	if p.peek() == "not" {
		p.pos++
		return &expr{op: "not", a: p.parseNot()}
	}
	switch p.peek() {
	case "(":
		p.pos++
		e := p.parseOr()
		if p.peek() != ")" {
			panic("c10: unbalanced token stream")
		}
		p.pos++
		return e
	case "atom":
		t := p.toks[p.pos]
		p.pos++
		return &expr{op: "atom", atom: p.index[t.atom]}
	case "true":
		p.pos++
		return &expr{op: "true"}
	}
	panic("c10: unexpected token " + p.peek())
}

func (e *expr) eval(assign []tv) tv {
	switch e.op {
	case "atom":
		return assign[e.atom]
	case "true":
		return vT
	case "not":
		return not3(e.a.eval(assign))
	case "and":
		return and3(e.a.eval(assign), e.b.eval(assign))
	case "or":
		return or3(e.a.eval(assign), e.b.eval(assign))
	}
	return xor3(e.a.eval(assign), e.b.eval(assign))
}

// reading turns a skeleton into an evaluable expression under a deviation set.
// The Neo4j null guard: query/neo4j's ExpressionListRewriter emits `not (x CONTAINS s)` as
// `(not (x CONTAINS s) or x is null)` on purpose (the PostgreSQL translator mirrors it with coalesce). Both sides are
// normalised by adding the guard at EVERY negated string predicate of the final reading; OR is idempotent in 3-valued logic,
// so a guard that is already there changes nothing and the truth tables stay exact. guardOf maps the index of a string
// predicate atom to the index of its `x is null` atom.
func addGuards(e *expr, guardOf map[int]int) *expr {
	if e == nil {
		return nil
	}
	e.a, e.b = addGuards(e.a, guardOf), addGuards(e.b, guardOf)
	if e.op == "not" && e.a.op == "atom" {
		if g, ok := guardOf[e.a.atom]; ok {
			return &expr{op: "or", a: e, b: &expr{op: "atom", atom: g}}
		}
	}
	return e
}

func reading(n *bnode, d deviations, index map[string]int, guardOf map[int]int) *expr {
	var extra []string
	if d.relKindHoist && n != nil {
		n = hoist(n, false, &extra)
	}
	var toks []token
	if n == nil {
		toks = append(toks, token{op: "true"})
	} else {
		toks = append(toks, token{op: "("})
		linearise(n, d, &toks)
		toks = append(toks, token{op: ")"})
	}
	if len(extra) > 0 {
		toks = append(toks, token{op: "and"}, token{op: "("})
		for i, a := range extra {
			if i > 0 {
				toks = append(toks, token{op: "or"})
			}
			toks = append(toks, token{op: "atom", atom: a})
		}
		toks = append(toks, token{op: ")"})
	}
	if d.notNotAsNot {
		// the text `not not x` is read back as one negation: runs of NOT tokens collapse
		kept := toks[:0:0]
		for i, t := range toks {
			if t.op == "not" && i > 0 && toks[i-1].op == "not" {
				continue
			}
			kept = append(kept, t)
		}
		toks = kept
	}
	p := &tparser{toks: toks, index: index}
	e := p.parseOr()
	if p.pos != len(toks) {
		panic("c10: trailing tokens")
	}
	return addGuards(e, guardOf)
}

// table evaluates e under all 3^k assignments.
func table(e *expr, k int) []tv {
	n := 1
	for i := 0; i < k; i++ {
		n *= 3
	}
	out := make([]tv, n)
	assign := make([]tv, k)
	for i := 0; i < n; i++ {
		x := i
		for j := 0; j < k; j++ {
			assign[j] = tv(x % 3)
			x /= 3
		}
		out[i] = e.eval(assign)
	}
	return out
}

func sameTable(a, b []tv) int {
	for i := range a {
		if a[i] != b[i] {
			return i
		}
	}
	return -1
}

func describeAssignment(i int, atoms []string) string {
	var sb strings.Builder
	for j, a := range atoms {
		fmt.Fprintf(&sb, "%s=%s ", a, [...]string{"F", "T", "NULL"}[i%3])
		_ = j
		i /= 3
	}
	return strings.TrimSpace(sb.String())
}

// render prints a skeleton structurally (for reports).
func (n *bnode) render() string {
	if n == nil {
		return "TRUE"
	}
	switch n.kind {
	case bAtom:
		return n.atom
	case bGroup:
		return "PAREN[" + n.kids[0].render() + "]"
	case bNot:
		return "NOT[" + n.kids[0].render() + "]"
	}
	parts := make([]string, len(n.kids))
	for i, k := range n.kids {
		parts[i] = k.render()
	}
	name := map[bkind]string{bAnd: "AND", bOr: "OR", bXor: "XOR"}[n.kind]
	if n.kindTest {
		name = "KIND-" + map[bool]string{true: "ALL-OF", false: "ANY-OF"}[n.allOf]
	}
	return name + "[" + strings.Join(parts, ", ") + "]"
}
