package main

// Builder terms: a small replayable term language over the exported constructors of package query, the cypher model
// constructors and the query/v2 combinators. A term is JSON (so that a violation artefact is the term itself) and is
// turned into fresh model objects by build().

import (
	"fmt"
	"strings"
	"time"

	"github.com/specterops/dawgs/cypher/models/cypher"
	"github.com/specterops/dawgs/graph"
	"github.com/specterops/dawgs/query"
	v2 "github.com/specterops/dawgs/query/v2"
)

type term struct {
	Op   string  `json:"op"`             // connective / wrapper, or "leaf"
	Leaf string  `json:"leaf,omitempty"` // leaf id (see leaves)
	Args []*term `json:"args,omitempty"`
}

func (t *term) String() string {
	if t.Op == "leaf" {
		return t.Leaf
	}
	parts := make([]string, len(t.Args))
	for i, a := range t.Args {
		parts[i] = a.String()
	}
	return opSpelling[t.Op] + "(" + strings.Join(parts, ", ") + ")"
}

func (t *term) depth() int {
	d := 0
	for _, a := range t.Args {
		if x := a.depth(); x > d {
			d = x
		}
	}
	if t.Op == "leaf" {
		return 0
	}
	return d + 1
}

var opSpelling = map[string]string{
	"q.And": "query.And", "q.Or": "query.Or", "q.Xor": "query.Xor", "q.Not": "query.Not",
	"c.And": "cypher.NewConjunction", "c.Or": "cypher.NewDisjunction", "c.Xor": "cypher.NewExclusiveDisjunction",
	"c.Not": "cypher.NewNegation", "c.Paren": "cypher.NewParenthetical",
	"v.And": "v2.And", "v.Or": "v2.Or", "v.Not": "v2.Not",
}

var (
	kindA = graph.StringKind("A")
	kindB = graph.StringKind("B")
	aTime = time.Date(2024, 2, 3, 4, 5, 6, 0, time.UTC)
)

func criteria(es []cypher.Expression) []graph.Criteria {
	out := make([]graph.Criteria, len(es))
	for i, e := range es {
		out[i] = e
	}
	return out
}

func syntaxNodes(es []cypher.Expression) []cypher.SyntaxNode {
	out := make([]cypher.SyntaxNode, len(es))
	for i, e := range es {
		out[i] = e
	}
	return out
}

// build makes fresh model objects for a term.
func (t *term) build() cypher.Expression {
	if t.Op == "leaf" {
		f, ok := leaves[t.Leaf]
		if !ok {
			panic("c10: unknown leaf " + t.Leaf)
		}
		return f()
	}
	args := make([]cypher.Expression, len(t.Args))
	for i, a := range t.Args {
		args[i] = a.build()
	}
	switch t.Op {
	case "q.And":
		return query.And(criteria(args)...)
	case "q.Or":
		return query.Or(criteria(args)...)
	case "q.Xor":
		return query.Xor(criteria(args)...)
	case "q.Not":
		return query.Not(args[0])
	case "c.And":
		return cypher.NewConjunction(args...)
	case "c.Or":
		return cypher.NewDisjunction(args...)
	case "c.Xor":
		return cypher.NewExclusiveDisjunction(args...)
	case "c.Not":
		return cypher.NewNegation(args[0])
	case "c.Paren":
		return cypher.NewParenthetical(args[0])
	case "v.And":
		return v2.And(syntaxNodes(args)...)
	case "v.Or":
		return v2.Or(syntaxNodes(args)...)
	case "v.Not":
		return v2.Not(args[0])
	}
	panic("c10: unknown op " + t.Op)
}

// ---- leaves ---------------------------------------------------------------------------------------------------------------

var leaves = map[string]func() cypher.Expression{}
var leafOrder []string // registration order = enumeration order

func reg(id string, f func() cypher.Expression) {
	if _, dup := leaves[id]; dup {
		panic("c10: duplicate leaf " + id)
	}
	leaves[id] = f
	leafOrder = append(leafOrder, id)
}

type named[T any] struct {
	name string
	v    T
}

// value pool of DESIGN section 4/C10
var paramValues = []named[any]{
	{"0", 0}, {"-1", -1}, {"1.0", 1.0}, {"1.5", 1.5}, {"1e21", 1e21}, {`""`, ""}, {`"a'b"`, "a'b"}, {`"a\\"`, `a\`}, {"true", true},
	{"nil", nil}, {"[]", []any{}}, {`[1,"a"]`, []any{1, "a"}}, {"time", aTime},
}

func literalValues() []named[func() cypher.Expression] {
	lit := func(v any) func() cypher.Expression { return func() cypher.Expression { return query.Literal(v) } }
	str := func(s string) func() cypher.Expression {
		return func() cypher.Expression { return cypher.NewStringLiteral(s) }
	}
	return []named[func() cypher.Expression]{
		{"query.Literal(0)", lit(0)}, {"query.Literal(-1)", lit(-1)}, {"query.Literal(1.0)", lit(1.0)}, {"query.Literal(1.5)", lit(1.5)},
		{"query.Literal(1e21)", lit(1e21)}, {"query.Literal(int64(7))", lit(int64(7))}, {"query.Literal(int64(9007199254740993))", lit(int64(9007199254740993))}, {"query.Literal(true)", lit(true)}, {"query.Literal(nil)", lit(nil)},
		{`cypher.NewStringLiteral("")`, str("")}, {`cypher.NewStringLiteral("a'b")`, str("a'b")}, {`cypher.NewStringLiteral("a\\")`, str(`a\`)},
		{"cypher.NewStringListLiteral([])", func() cypher.Expression { return cypher.NewStringListLiteral([]string{}) }},
		{`cypher.NewStringListLiteral(["a","b'c"])`, func() cypher.Expression { return cypher.NewStringListLiteral([]string{"a", "b'c"}) }},
		{`ListLiteral{Literal(1),StringLiteral("a")}`, func() cypher.Expression {
			l := cypher.NewListLiteral()
			*l = append(*l, query.Literal(1), cypher.NewStringLiteral("a"))
			return l
		}},
		{"query.Literal(time)", lit(aTime)},
		{"v2.Literal(\"a'b\")", func() cypher.Expression { return v2.Literal("a'b") }},
	}
}

type refSpec struct {
	name string
	f    func() cypher.Expression
	fam  string // "n" node query, "r" relationship query
}

var propRefs = []refSpec{
	{`query.NodeProperty("name")`, func() cypher.Expression { return query.NodeProperty("name") }, "n"},
	{`query.NodeProperty("odd key")`, func() cypher.Expression { return query.NodeProperty("odd key") }, "n"},
	{"query.NodeID()", func() cypher.Expression { return query.NodeID() }, "n"},
	{`query.RelationshipProperty("w")`, func() cypher.Expression { return query.RelationshipProperty("w") }, "r"},
	{`query.StartProperty("name")`, func() cypher.Expression { return query.StartProperty("name") }, "r"},
	{`query.EndProperty("name")`, func() cypher.Expression { return query.EndProperty("name") }, "r"},
	{"query.RelationshipID()", func() cypher.Expression { return query.RelationshipID() }, "r"},
	{"query.StartID()", func() cypher.Expression { return query.StartID() }, "r"},
	{"query.EndID()", func() cypher.Expression { return query.EndID() }, "r"},
}

var entityRefs = []named[func() *cypher.Variable]{
	{"query.Node()", query.Node}, {"query.Relationship()", query.Relationship}, {"query.Start()", query.Start}, {"query.End()", query.End},
}

var kindLists = []named[graph.Kinds]{{"", nil}, {"A", graph.Kinds{kindA}}, {"A, B", graph.Kinds{kindA, kindB}}}

// family of a leaf id: which query shape (node / relationship) it belongs to
var leafFamily = map[string]string{}

func famOf(v string) string {
	if v == "query.Node()" {
		return "n"
	}
	return "r"
}

func registerLeaves() {
	add := func(id, fam string, f func() cypher.Expression) {
		reg(id, f)
		leafFamily[id] = fam
	}
	type cmp struct {
		name string
		f    func(graph.Criteria, any) *cypher.Comparison
	}
	valueCmps := []cmp{
		{"query.Equals", query.Equals}, {"query.GreaterThan", query.GreaterThan}, {"query.GreaterThanOrEquals", query.GreaterThanOrEquals},
		{"query.LessThan", query.LessThan}, {"query.LessThanOrEquals", query.LessThanOrEquals}, {"query.After", query.After},
		{"query.In", query.In}, {"query.InInverted", query.InInverted},
	}
	for _, ref := range propRefs {
		ref := ref
		for _, c := range valueCmps {
			c := c
			for _, v := range paramValues {
				v := v
				if ref.name != propRefs[0].name && ref.name != propRefs[3].name && c.name != "query.Equals" {
					continue // all comparison constructors x all values on one node and one relationship reference; Equals on every reference
				}
				add(fmt.Sprintf("%s(%s, %s)", c.name, ref.name, v.name), ref.fam, func() cypher.Expression { return c.f(ref.f(), v.v) })
			}
		}
		// literal operands through the cypher model constructor
		for _, op := range []cypher.Operator{cypher.OperatorEquals, cypher.OperatorNotEquals, cypher.OperatorLessThan, cypher.OperatorGreaterThan,
			cypher.OperatorLessThanOrEqualTo, cypher.OperatorGreaterThanOrEqualTo, cypher.OperatorIn, cypher.OperatorStartsWith, cypher.OperatorEndsWith,
			cypher.OperatorContains, cypher.OperatorRegexMatch} {
			op := op
			if ref.name != propRefs[0].name && op != cypher.OperatorEquals {
				continue
			}
			for _, l := range literalValues() {
				l := l
				add(fmt.Sprintf("cypher.NewComparison(%s, %q, %s)", ref.name, string(op), l.name), ref.fam, func() cypher.Expression {
					return cypher.NewComparison(ref.f(), op, l.v())
				})
			}
		}
		type sp struct {
			name string
			f    func(graph.Criteria, string) *cypher.Comparison
		}
		for _, s := range []sp{{"query.StringContains", query.StringContains}, {"query.StringStartsWith", query.StringStartsWith}, {"query.StringEndsWith", query.StringEndsWith},
			{"query.CaseInsensitiveStringContains", query.CaseInsensitiveStringContains}, {"query.CaseInsensitiveStringStartsWith", query.CaseInsensitiveStringStartsWith},
			{"query.CaseInsensitiveStringEndsWith", query.CaseInsensitiveStringEndsWith}} {
			s := s
			for _, v := range []string{"", "a'b", `a\`, "S"} {
				v := v
				add(fmt.Sprintf("%s(%s, %q)", s.name, ref.name, v), ref.fam, func() cypher.Expression { return s.f(ref.f(), v) })
			}
		}
		add(fmt.Sprintf("query.IsNull(%s)", ref.name), ref.fam, func() cypher.Expression { return query.IsNull(ref.f()) })
		add(fmt.Sprintf("query.IsNotNull(%s)", ref.name), ref.fam, func() cypher.Expression { return query.IsNotNull(ref.f()) })
		add(fmt.Sprintf("query.Exists(%s)", ref.name), ref.fam, func() cypher.Expression { return query.Exists(ref.f()) })
		add(fmt.Sprintf("query.Before(%s, time)", ref.name), ref.fam, func() cypher.Expression { return query.Before(ref.f(), aTime) })
	}
	add(`query.LessThanGraphQuery(query.NodeProperty("a"), query.NodeProperty("b"))`, "n", func() cypher.Expression {
		return query.LessThanGraphQuery(query.NodeProperty("a"), query.NodeProperty("b"))
	})
	add(`query.BeforeGraphQuery(query.StartProperty("a"), query.EndProperty("b"))`, "r", func() cypher.Expression {
		return query.BeforeGraphQuery(query.StartProperty("a"), query.EndProperty("b"))
	})
	add("query.HasRelationships(query.Node())", "n", func() cypher.Expression { return query.HasRelationships(query.Node()) })
	add("query.InIDs(query.Node(), 1, 2)", "n", func() cypher.Expression { return query.InIDs(query.Node(), 1, 2) })
	add("query.InIDs(query.NodeID(), 1)", "n", func() cypher.Expression { return query.InIDs(query.NodeID(), 1) })
	add("query.InIDs(query.Node())", "n", func() cypher.Expression { return query.InIDs(query.Node()) })
	add("query.InIDs(query.End(), 1, 2)", "r", func() cypher.Expression { return query.InIDs(query.End(), 1, 2) })
	add("query.InIDs(query.Relationship(), 3)", "r", func() cypher.Expression { return query.InIDs(query.Relationship(), 3) })
	// kind tests: lists of length 0, 1, 2; any-of (query.Kind / query.KindIn / NewKindMatcher false) and all-of (NewKindMatcher true)
	for _, e := range entityRefs {
		e := e
		for _, ks := range kindLists {
			ks := ks
			add(fmt.Sprintf("query.Kind(%s%s)", e.name, sep(ks.name)), famOf(e.name), func() cypher.Expression { return query.Kind(e.v(), ks.v...) })
			add(fmt.Sprintf("query.KindIn(%s%s)", e.name, sep(ks.name)), famOf(e.name), func() cypher.Expression { return query.KindIn(e.v(), ks.v...) })
			for _, excl := range []bool{false, true} {
				excl := excl
				add(fmt.Sprintf("cypher.NewKindMatcher(%s, [%s], %v)", e.name, ks.name, excl), famOf(e.name), func() cypher.Expression {
					return cypher.NewKindMatcher(e.v(), append(graph.Kinds{}, ks.v...), excl)
				})
			}
		}
	}
}

func sep(s string) string {
	if s == "" {
		return ""
	}
	return ", " + s
}

// ---- boolean skeletons ----------------------------------------------------------------------------------------------------

var (
	listOps  = []string{"q.And", "q.Or", "q.Xor", "c.And", "c.Or", "c.Xor"}
	unaryOps = []string{"q.Not", "c.Not", "c.Paren", "q.And", "q.Or", "q.Xor"} // the last three: one-element lists
	v2List   = []string{"v.And", "v.Or", "c.And", "c.Or", "c.Xor"}
	v2Unary  = []string{"v.Not", "c.Not", "c.Paren", "v.And", "v.Or"}
)

// skeletons enumerates every term with 1..maxLeaves leaves (placeholders L0, L1, ... used once each, left to right),
// every tree shape with list nodes of 2 or 3 operands, every labelling of the list nodes by listOps, and every placement
// of at most maxUnary unary wrappers (on any node, stackable), inside the depth bound.
func skeletons(minLeaves, maxLeaves, maxUnary, maxDepth int, lists, unaries []string, yield func(*term)) {
	// shapes[n] = all list-trees over n leaves (leaf indices assigned later)
	type shape = *term
	memo := map[int][]shape{}
	var shapes func(n int) []shape
	shapes = func(n int) []shape {
		if s, ok := memo[n]; ok {
			return s
		}
		var res []shape
		if n == 1 {
			res = []shape{{Op: "leaf"}}
		} else {
			// split n leaves into 2 or 3 ordered non-empty groups
			var parts [][]int
			for a := 1; a < n; a++ {
				parts = append(parts, []int{a, n - a})
				for b := 1; a+b < n; b++ {
					parts = append(parts, []int{a, b, n - a - b})
				}
			}
			for _, p := range parts {
				var rec func(i int, cur []shape)
				rec = func(i int, cur []shape) {
					if i == len(p) {
						for _, op := range lists {
							res = append(res, &term{Op: op, Args: append([]shape{}, cur...)})
						}
						return
					}
					for _, s := range shapes(p[i]) {
						rec(i+1, append(cur, s))
					}
				}
				rec(0, nil)
			}
		}
		memo[n] = res
		return res
	}
	clone := func(t *term) *term { return cloneTerm(t) }
	for n := minLeaves; n <= maxLeaves; n++ {
		for _, s := range shapes(n) {
			base := clone(s)
			idx := 0
			numberLeaves(base, &idx)
			// unary placements: choose up to maxUnary (node position, wrapper) pairs; positions are pre-order node indices;
			// the same position may be wrapped twice (stacked)
			nodes := countNodes(base)
			var place func(start int, left int, cur *term)
			place = func(start, left int, cur *term) {
				if cur.depth() > maxDepth {
					return // wrappers only deepen
				}
				yield(cur)
				if left == 0 {
					return
				}
				for pos := start; pos < nodes; pos++ {
					for _, u := range unaries {
						place(pos, left-1, wrapAt(cur, pos, u))
					}
				}
			}
			place(0, maxUnary, base)
		}
	}
}

func cloneTerm(t *term) *term {
	c := &term{Op: t.Op, Leaf: t.Leaf}
	for _, a := range t.Args {
		c.Args = append(c.Args, cloneTerm(a))
	}
	return c
}

func numberLeaves(t *term, idx *int) {
	if t.Op == "leaf" {
		t.Leaf = fmt.Sprintf("L%d", *idx)
		*idx++
		return
	}
	for _, a := range t.Args {
		numberLeaves(a, idx)
	}
}

// countNodes counts the nodes of the *unwrapped* shape: wrappers are transparent for positions.
func countNodes(t *term) int {
	if isWrapper(t) {
		return countNodes(t.Args[0])
	}
	n := 1
	for _, a := range t.Args {
		n += countNodes(a)
	}
	return n
}

func isWrapper(t *term) bool { return t.Op != "leaf" && len(t.Args) == 1 }

// wrapAt returns a copy of t in which the pos-th (pre-order, wrappers transparent) node is wrapped by op (outermost).
func wrapAt(t *term, pos int, op string) *term {
	counter := 0
	var rec func(t *term) *term
	rec = func(t *term) *term {
		// skip over existing wrappers: they belong to the node below
		if isWrapper(t) {
			inner := t
			for isWrapper(inner) {
				inner = inner.Args[0]
			}
			if counter == pos {
				counter++
				// descend without further wrapping below
				return &term{Op: op, Args: []*term{cloneTerm(t)}}
			}
			return &term{Op: t.Op, Args: []*term{rec(t.Args[0])}}
		}
		mine := counter
		counter++
		c := &term{Op: t.Op, Leaf: t.Leaf}
		for _, a := range t.Args {
			c.Args = append(c.Args, rec(a))
		}
		if mine == pos {
			return &term{Op: op, Args: []*term{c}}
		}
		return c
	}
	return rec(t)
}

// instantiate replaces the placeholders L0.. by concrete leaf ids.
func instantiate(t *term, assign []string) *term {
	if t.Op == "leaf" {
		var i int
		fmt.Sscanf(t.Leaf, "L%d", &i)
		return &term{Op: "leaf", Leaf: assign[i%len(assign)]}
	}
	c := &term{Op: t.Op}
	for _, a := range t.Args {
		c.Args = append(c.Args, instantiate(a, assign))
	}
	return c
}
