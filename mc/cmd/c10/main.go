// Command c10 decides property C10 (emitted Cypher text means the same as the query model it was emitted from).
//
// Engine E3, level "exploration": all builder terms inside stated bounds are emitted through every production path, the
// text is parsed back (frontend.ParseCypher) and compared with the reference model by meaning of structure
// (meaning.go / compare.go): boolean skeleton under ALL assignments of the leaf atoms to {T, F, NULL} (Cypher 3-valued
// logic), leaves exactly (operator, operands, literal type and value, parameter value, kinds with all-of/any-of reading),
// projection / order / skip / limit / patterns / updating clauses exactly.
//
// Paths: (A) the stable builder as the Neo4j driver uses it (query/neo4j QueryBuilder: Apply, Prepare, Render, Parameters)
// against the model the PostgreSQL driver translates for the same criteria (query.Builder.Build); (B) query/v2 Build +
// format.RegularQuery; (C) drivers/neo4j rewriteQuery (parse, rewrite, re-emit) on texts; (D) format.RegularQuery on
// parser-made models.
package main

import (
	"crypto/sha256"
	"encoding/hex"
	"encoding/json"
	"fmt"
	"os"
	"path/filepath"
	"sort"
	"strings"

	"github.com/specterops/dawgs/cypher/models/cypher"
	"github.com/specterops/dawgs/cypher/models/walk"
	"github.com/specterops/dawgs/graph"
	"github.com/specterops/dawgs/query"
	v2 "github.com/specterops/dawgs/query/v2"

	"verif/core"
)

func jsonUnmarshal(b []byte, v any) error { return json.Unmarshal(b, v) }

func repoRoot() string {
	if r := os.Getenv("VERIF_REPO"); r != "" {
		return r
	}
	return "/repo"
}

func leaf(id string) *term { return &term{Op: "leaf", Leaf: id} }

// representative leaves the boolean skeletons are instantiated with: a parameter comparison, a kind test, a string
// predicate (the Neo4j null guard is applied to its negations) and a literal comparison; for relationship queries the
// first leaf is a kind test on the relationship (which the Neo4j builder moves into the pattern).
var (
	nodeAssign = []string{`query.Equals(query.NodeProperty("name"), "a'b")`, "query.Kind(query.Node(), A, B)", `query.StringContains(query.NodeProperty("name"), "S")`, `cypher.NewComparison(query.NodeProperty("name"), ">", query.Literal(1.5))`}
	nodeRot    = []string{`query.StringContains(query.NodeProperty("name"), "S")`, `cypher.NewKindMatcher(query.Node(), [A, B], true)`, `query.Equals(query.NodeProperty("name"), 0)`, "query.IsNull(query.NodeProperty(\"name\"))"}
	relAssign  = []string{"query.Kind(query.Relationship(), A)", `query.Equals(query.StartProperty("name"), "a'b")`, "query.InIDs(query.End(), 1, 2)", `query.IsNotNull(query.RelationshipProperty("w"))`}
	v2Node     = []string{`v2:v2.Node().Property("name").Equals("a'b")`, "v2:v2.Node().Kinds().HasOneOf([A, B])", `v2:v2.Node().Property("name").Contains("a'b")`, `v2:v2.Node().Property("name").GreaterThan(query.Literal(1.5))`}
	v2Rel      = []string{"v2:v2.Relationship().Kind().Is(A)", `v2:v2.Start().Property("name").Equals("a'b")`, `v2:v2.End().ID().In([]int64{1,2})`, `v2:v2.Relationship().Property("name").IsNotNull()`}
)

type bounds struct {
	leaves, unary, depth int
}

func boundsOf(tier core.Tier) bounds {
	if tier == core.Thorough {
		return bounds{leaves: 4, unary: 2, depth: 4}
	}
	return bounds{leaves: 3, unary: 2, depth: 3}
}

// parse cache: many different terms emit the same text (one-element lists and redundant wrappers vanish)
var parseCache = map[string]*cypher.RegularQuery{}

func parseTextCached(text string) (*cypher.RegularQuery, error) {
	if q, ok := parseCache[text]; ok {
		return q, nil
	}
	q, err := parseText(text)
	if err == nil {
		if len(parseCache) > 40000 {
			parseCache = map[string]*cypher.RegularQuery{}
		}
		parseCache[text] = q
	}
	return q, err
}

// enumerateCases streams every case of the tier to yield, in a fixed order (the index of a case is its identity for
// sharding and for witness selection). Nothing is materialised: the thorough tier has millions of cases.
func enumerateCases(tier core.Tier, yield func(i int, c caseSpec)) (total int) {
	emitCase := func(c caseSpec) {
		yield(total, c)
		total++
	}
	retN, retR := "query.Returning(query.Node())", "query.Returning(query.Relationship())"
	// 1. every leaf constructor x value, alone and negated
	for _, id := range leafOrder {
		fam := leafFamily[id]
		if strings.HasPrefix(id, "v2:") {
			tail := ".Return(v2.Node())"
			if fam == "r" {
				tail = ".Return(v2.Relationship())"
			}
			emitCase(caseSpec{Path: "v2", Where: leaf(id), Tail: tail})
			emitCase(caseSpec{Path: "v2", Where: &term{Op: "v.Not", Args: []*term{leaf(id)}}, Tail: tail})
			continue
		}
		tail := retN
		if fam == "r" {
			tail = retR
		}
		emitCase(caseSpec{Path: "neo4j", Where: leaf(id), Tail: tail})
		emitCase(caseSpec{Path: "neo4j", Where: &term{Op: "q.Not", Args: []*term{leaf(id)}}, Tail: tail})
	}
	// 2. projections, order, skip, limit, updating clauses (with and without a WHERE)
	for _, id := range tailOrder {
		var w *term
		// a WHERE on n together with a CREATE of n asks for nothing meaningful (n would be both matched and created)
		if !strings.Contains(id, "Relationship") && !strings.Contains(id, "Start()") && !strings.Contains(id, "query.Create(") {
			w = leaf(nodeAssign[0])
		}
		emitCase(caseSpec{Path: "neo4j", Where: w, Tail: id})
		if w != nil {
			emitCase(caseSpec{Path: "neo4j", Tail: id})
		}
	}
	for _, id := range v2tailOrder {
		var w *term
		if !strings.Contains(id, "Relationship") {
			w = leaf(v2Node[0])
		}
		emitCase(caseSpec{Path: "v2", Where: w, Tail: id})
		if w != nil {
			emitCase(caseSpec{Path: "v2", Tail: id})
		}
	}
	// 3. texts: generated fully parenthesised boolean texts and the repository corpora, through format.RegularQuery and
	// through the driver's rewrite (with a pattern property parameter so that the re-emission really happens)
	text := func(t string) {
		if _, err := parseText(t); err != nil {
			return
		}
		emitCase(caseSpec{Path: "format", Query: t})
		emitCase(caseSpec{Path: "rewrite", Query: t, Params: paramsFor(t)})
	}
	skeletons(1, 3, 1, 3, []string{"t.and", "t.or", "t.xor"}, []string{"t.not", "t.paren"}, func(sk *term) {
		text("match (n $props) where " + renderText(sk, textLeaves) + " return n")
	})
	for _, lit := range []string{"0", "-1", "1.0", "1.5", "1e21", "''", `'a\'b'`, `'a\\'`, "true", "null", "[]", "[1, 'a']", "1.0e-3", "0.5"} {
		text("match (n $props) where n.a = " + lit + " return n order by n.a desc skip 1 limit 2")
	}
	for _, t := range corpusTexts(repoRoot()) {
		text(t)
	}
	// 4. boolean skeletons. Up to 3 leaves with up to 2 wrappers: every instantiation and both builders. The thorough tier
	// adds the 4-leaf terms: with up to 2 wrappers for the node family on the stable builder, with up to 1 wrapper for the
	// other instantiations and for v2.
	stable := func(assign []string, tail string) func(*term) {
		return func(sk *term) { emitCase(caseSpec{Path: "neo4j", Where: instantiate(sk, assign), Tail: tail}) }
	}
	fluent := func(assign []string, tail string) func(*term) {
		return func(sk *term) { emitCase(caseSpec{Path: "v2", Where: instantiate(sk, assign), Tail: tail}) }
	}
	skeletons(1, 3, 2, 3, listOps, unaryOps, func(sk *term) {
		stable(nodeAssign, retN)(sk)
		stable(relAssign, retR)(sk)
		if tier == core.Thorough {
			stable(nodeRot, retN)(sk)
		}
	})
	skeletons(1, 3, 2, 3, v2List, v2Unary, func(sk *term) {
		fluent(v2Node, ".Return(v2.Node())")(sk)
		fluent(v2Rel, ".Return(v2.Relationship())")(sk)
	})
	if tier == core.Thorough {
		skeletons(1, 3, 2, 4, listOps, unaryOps, func(sk *term) {
			if sk.depth() == 4 { // the depth-4 terms over <= 3 leaves that the quick bound leaves out
				stable(nodeAssign, retN)(sk)
				stable(relAssign, retR)(sk)
			}
		})
		skeletons(4, 4, 2, 4, listOps, unaryOps, stable(nodeAssign, retN))
		skeletons(4, 4, 1, 4, listOps, unaryOps, func(sk *term) {
			stable(relAssign, retR)(sk)
			stable(nodeRot, retN)(sk)
		})
		skeletons(4, 4, 1, 4, v2List, v2Unary, func(sk *term) {
			fluent(v2Node, ".Return(v2.Node())")(sk)
			fluent(v2Rel, ".Return(v2.Relationship())")(sk)
		})
	}
	return total
}

// paramsFor supplies a value for every parameter of a text: a property map for pattern property parameters, 1 otherwise.
func paramsFor(text string) map[string]any {
	q, err := parseText(text)
	if err != nil {
		return nil
	}
	out := map[string]any{}
	_ = walk.CypherStructural(q, walk.NewSimpleVisitor[cypher.SyntaxNode](func(n cypher.SyntaxNode, _ walk.VisitorHandler) {
		switch t := n.(type) {
		case *cypher.Properties:
			if t.Parameter != nil {
				out[t.Parameter.Symbol] = map[string]any{"name": "x", "odd key": 1.5}
			}
		case *cypher.Parameter:
			if _, ok := out[t.Symbol]; !ok {
				out[t.Symbol] = 1
			}
		}
	}))
	if len(out) == 0 {
		return nil
	}
	return out
}

func emit(c caseSpec) emission {
	switch c.Path {
	case "neo4j":
		tail, ok := tails[c.Tail]
		if !ok {
			core.Fatalf("c10: unknown tail %q", c.Tail)
		}
		return pathNeo4jBuilder(func() []graph.Criteria {
			var out []graph.Criteria
			if c.Where != nil {
				out = append(out, query.Where(c.Where.build()))
			}
			return append(out, tail()...)
		})
	case "v2":
		tail, ok := v2tails[c.Tail]
		if !ok {
			core.Fatalf("c10: unknown v2 tail %q", c.Tail)
		}
		return pathV2(func() v2.QueryBuilder {
			b := v2.New()
			if c.Where != nil {
				b = b.Where(c.Where.build())
			}
			return tail(b)
		})
	case "format":
		return pathFormat(c.Query)
	case "rewrite":
		return pathDriverRewrite(c.Query, c.Params)
	}
	core.Fatalf("c10: unknown path %q", c.Path)
	return emission{}
}

type verdict struct {
	em    emission
	diff  *difference
	stats compareStats
	tq    *cypher.RegularQuery
}

func judge(c caseSpec) verdict {
	var v verdict
	if p := core.Try(func() { v.em = emit(c) }); p != nil {
		v.em.refused = fmt.Sprintf("construction panicked: %v", p)
		return v
	}
	if v.em.refused != "" {
		return v
	}
	if v.em.reuse != "" {
		v.diff = &difference{"second-query-from-the-same-criteria-differs", v.em.reuse}
		return v
	}
	tq, err := parseTextCached(v.em.text)
	if err != nil {
		msg := err.Error()
		if len(msg) > 300 {
			msg = msg[:300]
		}
		class := "emitted-text-does-not-parse"
		if hasEmptyKindList(v.em.m.q) {
			class = "empty-kind-list-emitted-as-invalid-cypher"
		} else if strings.Contains(v.em.text, "(())") {
			class = "relationship-kind-test-hoist-leaves-empty-parentheses"
		} else if hasIntegralFloatLiteral(v.em.m.q) && strings.Contains(msg, "invalid integer literal") {
			class = "float-literal-emitted-as-integer" // same root cause: the float is printed without a decimal point, here too large for an integer
		}
		v.diff = &difference{class, msg}
		return v
	}
	v.tq = tq
	if p := core.Try(func() { v.diff, v.stats = compare(v.em.m, side{q: tq, params: v.em.params}) }); p != nil {
		core.Fatalf("c10: comparison panicked on %s: %v", c, p)
	}
	if v.diff != nil && rawOps(c.Where) > 0 {
		// A lost grouping has two possible root causes: a combinator of package query / v2 that forgets the Parenthetical
		// it is supposed to add, or the emitter meeting a bare nested connective that only raw cypher-model constructors
		// can produce. They get different class names so that one cannot hide the other.
		parts := strings.Split(v.diff.class, "+")
		for i, p := range parts {
			if strings.HasSuffix(p, "-grouping-lost") || p == "stacked-not-read-back-as-single-not" {
				parts[i] = p + "-raw-model"
			}
		}
		v.diff.class = strings.Join(parts, "+")
	}
	return v
}

func main() {
	run := core.Start("C10", "exploration")
	registerLeaves()
	registerTails()
	registerV2()
	if run.Replay != "" {
		replay(run)
		return
	}
	b := boundsOf(run.Tier)
	hashDir, err := os.MkdirTemp("", "verif-c10-")
	if _, _, isWorker := run.Worker(); isWorker {
		hashDir = os.Getenv("VERIF_C10_HASHDIR")
	} else if err != nil {
		core.Fatalf("c10: %v", err)
	}
	if run.Fork(16, "VERIF_C10_HASHDIR="+hashDir) {
		defer os.RemoveAll(hashDir)
		distinct := map[string]bool{}
		files, _ := filepath.Glob(filepath.Join(hashDir, "*.txt"))
		for _, f := range files {
			if bts, err := os.ReadFile(f); err == nil {
				for _, h := range strings.Fields(string(bts)) {
					distinct[h] = true
				}
			}
		}
		// violation records of the workers: (class, size, case index); the witness reported per class is the smallest
		// case (pure root causes before composite ones), re-judged here, so the verdict and its witness are the same in
		// every run
		type rec struct{ size, idx int }
		best := map[string]rec{}
		perClass := map[string]any{}
		var violating int64
		vfiles, _ := filepath.Glob(filepath.Join(hashDir, "*.viol"))
		sort.Strings(vfiles)
		for _, f := range vfiles {
			bts, _ := os.ReadFile(f)
			for _, line := range strings.Split(string(bts), "\n") {
				var class string
				var size, idx int
				if n, _ := fmt.Sscanf(line, "%s %d %d", &class, &size, &idx); n != 3 {
					continue
				}
				violating++
				parts := strings.Split(class, "+")
				for _, c := range parts {
					sz := size
					if len(parts) > 1 {
						sz += 1000000 // a case with several root causes is a witness only if there is no pure one
					}
					cnt, _ := perClass[c].(int64)
					perClass[c] = cnt + 1
					if b, ok := best[c]; !ok || sz < b.size || (sz == b.size && idx < b.idx) {
						best[c] = rec{sz, idx}
					}
				}
			}
		}
		classes := make([]string, 0, len(best))
		wanted := map[int]caseSpec{}
		for c := range best {
			classes = append(classes, c)
			wanted[best[c].idx] = caseSpec{}
		}
		sort.Strings(classes)
		// second pass over the enumeration: fetch the witnesses and three samples by index
		total := enumerateCases(run.Tier, func(int, caseSpec) {})
		sampleIdx := map[int]bool{0: true, total / 2: true, total - 1: true}
		samples := map[int]caseSpec{}
		enumerateCases(run.Tier, func(i int, c caseSpec) {
			if _, ok := wanted[i]; ok {
				wanted[i] = c
			}
			if sampleIdx[i] {
				samples[i] = c
			}
		})
		for _, c := range classes {
			cs := wanted[best[c].idx]
			v := judge(cs)
			summary := "(not reproduced in the parent)"
			if v.diff != nil {
				summary = fmt.Sprintf("%s emits %q (parameters %s): %s", cs, v.em.text, valueRepr(v.em.params), v.diff.summary)
			}
			run.Report(core.Violation{Class: c, Summary: summary, Artefact: cs})
		}
		run.Set("violating_cases", violating)
		run.Set("violating_cases_by_class", perClass)
		os.RemoveAll(hashDir)
		run.Set("distinct_nontrivial", int64(len(distinct)))
		run.Set("cases", int64(total))
		run.Set("leaf_constructors_x_values", int64(len(leafOrder)))
		run.Set("tails_stable_builder", int64(len(tailOrder)))
		run.Set("tails_v2", int64(len(v2tailOrder)))
		run.Set("max_leaves_bound", int64(b.leaves))
		run.Set("max_unary_wrappers_bound", int64(b.unary))
		run.Set("max_depth_bound", int64(b.depth))
		run.Set("rule", fmt.Sprintf("all leaf constructors x value pool (alone and negated); all boolean terms with <= %d leaves, list nodes of 2-3 operands over {query.And/Or/Xor, cypher.NewConjunction/NewDisjunction/NewExclusiveDisjunction} (v2: {v2.And/Or, cypher.*}), <= %d unary wrappers {Not, NewNegation, NewParenthetical, one-element lists} anywhere (4-leaf terms: 2 wrappers for the node family on the stable builder, 1 otherwise), nesting depth <= %d, instantiated with node and relationship leaf sets; all Returning/Distinct x items x OrderBy x Limit x Offset and all updating-clause constructors; generated parenthesised texts and the repository corpora through format.RegularQuery and the driver rewrite. distinct_nontrivial = distinct (emitted text, parameter values) pairs among the judged cases that contain a WHERE, ORDER BY, SKIP, LIMIT or updating clause", b.leaves, b.unary, b.depth))
		run.Assume("the parser (frontend.ParseCypher) reads operator precedence correctly (NOT > AND > XOR > OR); C07 judges the parser")
		run.Assume("the Neo4j null guard `(not (x CONTAINS s) or x is null)` added by ExpressionListRewriter is intended (the PostgreSQL translator mirrors it with coalesce) and is absorbed before comparison")
		run.Assume("kind constraints of a named relationship pattern [r:A|B] and a kind test on r in WHERE are the same constraint (the Neo4j builder moves the latter into the former on purpose); they are compared inside the truth table")
		run.Assume("the driver's temporal rewrite date(n.p) <op> date() and the expansion of a pattern property parameter into a map of per-key parameters are intended and normalised on both sides")
		run.Assume("a kind test on the relationship variable is any-of whatever IsExclusive says (a relationship has one kind; the PostgreSQL translator ignores IsExclusive for edges)")
		run.Assume("a builder or emitter that returns an error emits no text: nothing to judge (counted as emission_refused)")
		for _, i := range []int{0, total / 2, total - 1} {
			v := judge(samples[i])
			run.Sample(map[string]any{"case": samples[i].String(), "text": v.em.text, "refused": v.em.refused})
		}
		run.Finish()
	}

	hashes, err := os.Create(filepath.Join(hashDir, fmt.Sprintf("w%s.txt", strings.ReplaceAll(os.Getenv("VERIF_WORKER"), "/", "_"))))
	if err != nil {
		core.Fatalf("c10: %v", err)
	}
	defer hashes.Close()
	viol, err := os.Create(filepath.Join(hashDir, fmt.Sprintf("w%s.viol", strings.ReplaceAll(os.Getenv("VERIF_WORKER"), "/", "_"))))
	if err != nil {
		core.Fatalf("c10: %v", err)
	}
	defer viol.Close()
	var dump *os.File
	if d := os.Getenv("VERIF_C10_DUMP"); d != "" {
		dump, _ = os.Create(filepath.Join(d, fmt.Sprintf("w%s.dump", strings.ReplaceAll(os.Getenv("VERIF_WORKER"), "/", "_"))))
	}
	var evals, refused, judged, unjudged, atoms, assignments int64
	byPath := map[string]int64{}
	capped := false
	enumerateCases(run.Tier, func(i int, c caseSpec) {
		if !run.Mine(i) || capped {
			return
		}
		if run.TimeUp() {
			capped = true
			return
		}
		evals++
		v := judge(c)
		if v.em.refused != "" {
			refused++
			if dump != nil {
				fmt.Fprintf(dump, "REFUSED\t%s\t%s\n", v.em.refused, c)
			}
			return
		}
		byPath[c.Path]++
		judged++
		atoms += int64(v.stats.atoms)
		assignments += int64(v.stats.assignments)
		if v.stats.unjudged != "" {
			unjudged++
		}
		if nontrivial(v.em.text) {
			h := sha256.Sum256([]byte(v.em.text + "\x00" + valueRepr(v.em.params)))
			fmt.Fprintln(hashes, hex.EncodeToString(h[:8]))
		}
		if v.diff != nil {
			fmt.Fprintf(viol, "%s %d %d\n", v.diff.class, caseSize(c), i)
			if dump != nil {
				fmt.Fprintf(dump, "VIOLATION\t%s\t%s\t%s\n", v.diff.class, c, v.em.text)
			}
		}
	})
	if capped {
		run.Capped("internal deadline")
	}
	run.Add("evaluations", evals)
	run.Add("emission_refused", refused)
	run.Add("judged", judged)
	run.Add("partly_unjudged", unjudged)
	run.Add("truth_table_atoms", atoms)
	run.Add("truth_table_assignments", assignments)
	for _, p := range []string{"neo4j", "v2", "format", "rewrite"} {
		run.Add("judged_path_"+p, byPath[p])
	}
	run.Finish()
}

func termSize(t *term) int {
	if t == nil {
		return 0
	}
	n := 1
	for _, a := range t.Args {
		n += termSize(a)
	}
	return n
}

func rawOps(t *term) int {
	if t == nil {
		return 0
	}
	n := 0
	if strings.HasPrefix(t.Op, "c.") || (t.Op == "leaf" && strings.HasPrefix(t.Leaf, "cypher.")) {
		n = 1
	}
	for _, a := range t.Args {
		n += rawOps(a)
	}
	return n
}

// caseSize orders witnesses: fewer term nodes first, then fewer raw cypher-model constructors (a witness made of the
// query package's own combinators is preferred), stable builder before v2 before texts, then shorter spelling.
func caseSize(c caseSpec) int {
	path := map[string]int{"neo4j": 0, "v2": 1, "format": 2, "rewrite": 3}[c.Path]
	return termSize(c.Where)*100000 + rawOps(c.Where)*10000 + path*2000 + min(len(c.Tail)+len(c.Query), 1999)
}

func hasIntegralFloatLiteral(q *cypher.RegularQuery) bool {
	found := false
	if q == nil {
		return false
	}
	_ = walk.CypherStructural(q, walk.NewSimpleVisitor[cypher.SyntaxNode](func(n cypher.SyntaxNode, _ walk.VisitorHandler) {
		if l, ok := n.(*cypher.Literal); ok && l != nil {
			if f, ok := l.Value.(float64); ok && f == float64(int64(f/1e6))*1e6 || ok && f == float64(int64(f)) {
				found = true
			}
		}
	}))
	return found
}

// hasEmptyKindList: does the reference model contain a kind test / kind assignment over zero kinds?
func hasEmptyKindList(q *cypher.RegularQuery) bool {
	found := false
	if q == nil {
		return false
	}
	_ = walk.CypherStructural(q, walk.NewSimpleVisitor[cypher.SyntaxNode](func(n cypher.SyntaxNode, _ walk.VisitorHandler) {
		switch t := n.(type) {
		case *cypher.KindMatcher:
			found = found || len(t.Kinds) == 0
		case *cypher.SetItem:
			if k, ok := t.Right.(graph.Kinds); ok && len(k) == 0 {
				found = true
			}
		}
	}))
	return found
}

func nontrivial(text string) bool {
	t := strings.ToLower(text)
	for _, k := range []string{" where ", " order by ", " skip ", " limit ", "set ", "remove ", "delete ", "create "} {
		if strings.Contains(t, k) {
			return true
		}
	}
	return false
}

func replay(run *core.Run) {
	var c caseSpec
	class := core.LoadArtefact(run.Replay, &c)
	fmt.Printf("replaying class=%s\n  case: %s\n", class, c)
	v := judge(c)
	if v.em.refused != "" {
		fmt.Printf("  no text emitted: %s\n", v.em.refused)
		run.Finish()
	}
	fmt.Printf("  path: %s\n  emitted text: %s\n  parameters: %s\n", v.em.path, v.em.text, valueRepr(v.em.params))
	show := func(name string, s side) {
		cl, err := flatten(s)
		if err != nil {
			fmt.Printf("  %s: %v\n", name, err)
			return
		}
		for i, x := range cl {
			w := "-"
			if x.where != nil {
				w = x.where.render()
			}
			fmt.Printf("  %s clause %d %s: %s\n      WHERE %s\n", name, i, x.kind, x.exact, w)
		}
	}
	show("model", v.em.m)
	if v.tq != nil {
		show("text ", side{q: v.tq, params: v.em.params})
	}
	if v.diff != nil {
		fmt.Printf("  difference: class=%s %s\n", v.diff.class, v.diff.summary)
		run.Report(core.Violation{Class: v.diff.class, Summary: fmt.Sprintf("%s emits %q: %s", c, v.em.text, v.diff.summary), Artefact: c})
	} else {
		fmt.Println("  no difference: the text means what the model says")
	}
	_ = sort.Strings
	run.Finish()
}
