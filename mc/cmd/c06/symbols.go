package main

import (
	"reflect"
	"regexp"
	"unsafe"

	"github.com/specterops/dawgs/cypher/models/cypher"
)

// symbolNodes holds every Variable and Parameter node of one parsed query (found by a reflection walk over the whole
// model, so that no occurrence is missed whatever field it hangs on) with their original symbols.
type symbolNodes struct {
	vars      []*cypher.Variable
	params    []*cypher.Parameter
	varOrig   []string
	paramOrig []string
	Vars      []string // distinct renameable variable symbols, first-occurrence order
	Params    []string // distinct parameter symbols
}

var (
	varType   = reflect.TypeOf((*cypher.Variable)(nil))
	paramType = reflect.TypeOf((*cypher.Parameter)(nil))
)

var reSymbol = regexp.MustCompile(`^[A-Za-z_][A-Za-z0-9_]*$`)

func collect(q *cypher.RegularQuery) *symbolNodes {
	s := &symbolNodes{}
	seenPtr := map[uintptr]bool{}
	seenVar := map[string]bool{}
	seenParam := map[string]bool{}
	var walk func(v reflect.Value)
	walk = func(v reflect.Value) {
		if !v.IsValid() {
			return
		}
		switch v.Kind() {
		case reflect.Pointer:
			if v.IsNil() {
				return
			}
			if seenPtr[v.Pointer()] {
				return
			}
			seenPtr[v.Pointer()] = true
			{
				// unexported (embedded) fields are walked too, so the node is taken through its address
				var node any
				switch v.Type() {
				case varType:
					node = (*cypher.Variable)(unsafe.Pointer(v.Pointer()))
				case paramType:
					node = (*cypher.Parameter)(unsafe.Pointer(v.Pointer()))
				}
				switch t := node.(type) {
				case *cypher.Variable:
					s.vars = append(s.vars, t)
					s.varOrig = append(s.varOrig, t.Symbol)
					if reSymbol.MatchString(t.Symbol) && !seenVar[t.Symbol] {
						seenVar[t.Symbol] = true
						s.Vars = append(s.Vars, t.Symbol)
					}
					return
				case *cypher.Parameter:
					s.params = append(s.params, t)
					s.paramOrig = append(s.paramOrig, t.Symbol)
					if reSymbol.MatchString(t.Symbol) && !seenParam[t.Symbol] {
						seenParam[t.Symbol] = true
						s.Params = append(s.Params, t.Symbol)
					}
					return
				}
			}
			walk(v.Elem())
		case reflect.Interface:
			if !v.IsNil() {
				walk(v.Elem())
			}
		case reflect.Struct:
			for i := 0; i < v.NumField(); i++ {
				walk(v.Field(i))
			}
		case reflect.Slice, reflect.Array:
			for i := 0; i < v.Len(); i++ {
				walk(v.Index(i))
			}
		case reflect.Map:
			it := v.MapRange()
			for it.Next() {
				walk(it.Value())
			}
		}
	}
	walk(reflect.ValueOf(q))
	return s
}

// apply renames in place; restore puts the original symbols back.
func (s *symbolNodes) apply(rv, rp map[string]string) {
	for i, v := range s.vars {
		if to, ok := rv[s.varOrig[i]]; ok {
			v.Symbol = to
		}
	}
	for i, p := range s.params {
		if to, ok := rp[s.paramOrig[i]]; ok {
			p.Symbol = to
		}
	}
}

func (s *symbolNodes) restore() {
	for i, v := range s.vars {
		v.Symbol = s.varOrig[i]
	}
	for i, p := range s.params {
		p.Symbol = s.paramOrig[i]
	}
}
