// Command c06 decides property C06 (translation is hygienic: user-chosen names never capture translator names).
//
// For every query of the enumeration / corpus (translatable or rejected), its user symbols (variables, aliases,
// parameters - every Variable and Parameter node of the parsed model) are renamed consistently and the renamed query
// is translated again. Oracle: SQL(rho(q)) has the same PostgreSQL token sequence as SQL(q) except output column
// aliases (identifier after AS / bare ORDER BY name at the top level) which must be exactly rho(old alias); the
// returned parameter maps are equal; rho(q) translates iff q does.
package main

import (
	"fmt"
	"os"
	"regexp"
	"sort"
	"strings"
	"sync"

	"github.com/specterops/dawgs/cypher/models/cypher"

	"verif/core"
	"verif/enum/cyq"
	"verif/pglex"
	"verif/xlate"
)

// staticPool: translator-internal names (DESIGN 4/C06) and SQL words; filtered at start-up to legal Cypher symbols.
var staticPool = []string{"n0", "e0", "s0", "s1", "i0", "pi0", "ep0", "pc0", "ex0", "n1", "e1", "path", "depth", "root_id", "next_id", "satisfied", "is_cycle",
	"_kind", "_kind_idx", "_edge", "_path", "node", "edge", "kind", "select", "id", "properties", "kind_ids", "excluded"}

var fresh = []string{"zq1", "zq2", "zq3", "zq4", "zq5", "zq6", "zq7", "zq8"}

type renaming struct {
	Vars   map[string]string `json:"variables,omitempty"`
	Params map[string]string `json:"parameters,omitempty"`
}

func (r renaming) String() string {
	var parts []string
	for _, m := range []struct {
		sigil string
		m     map[string]string
	}{{"", r.Vars}, {"$", r.Params}} {
		keys := make([]string, 0, len(m.m))
		for k := range m.m {
			keys = append(keys, k)
		}
		sort.Strings(keys)
		for _, k := range keys {
			parts = append(parts, m.sigil+k+"->"+m.sigil+m.m[k])
		}
	}
	return strings.Join(parts, ",")
}

type artefact struct {
	Text     string   `json:"text"`
	Source   string   `json:"source,omitempty"`
	Renaming renaming `json:"renaming"`
}

type translated struct {
	kind   string
	sql    string
	params string
	err    string
	panicV string
}

func paramsFor(symbols []string, rp map[string]string) map[string]any {
	if len(symbols) == 0 {
		return nil
	}
	m := map[string]any{}
	for i, p := range symbols {
		name := p
		if to, ok := rp[p]; ok {
			name = to
		}
		m[name] = fmt.Sprintf("v%d", i)
	}
	return m
}

func translateWith(q *cypher.RegularQuery, syms *symbolNodes, r renaming, km *xlate.Mapper) translated {
	syms.apply(r.Vars, r.Params)
	defer syms.restore()
	o := xlate.AST(q, km.KindMapper, paramsFor(syms.Params, r.Params))
	return translated{kind: o.Kind(), sql: o.SQL, params: xlate.ParamsJSON(o.Params), err: o.Err, panicV: o.Panic}
}

var reGenerated = regexp.MustCompile(`^(n|e|s|i|pi|ep|pc|ex)\d+$`)

func family(name string) string {
	if m := reGenerated.FindStringSubmatch(name); m != nil {
		return m[1] + "<N>"
	}
	if strings.HasPrefix(name, "zq") {
		return "fresh"
	}
	return name
}

// compare checks the oracle for one renaming; it returns "" or a description of the first difference.
func compare(base, ren translated, rv map[string]string) string {
	if base.params != ren.params {
		return fmt.Sprintf("returned parameter maps differ: %s vs %s", base.params, ren.params)
	}
	a, _ := pglex.Lex(base.sql)
	b, _ := pglex.Lex(ren.sql)
	if len(a) != len(b) {
		return fmt.Sprintf("token counts differ (%d vs %d)", len(a), len(b))
	}
	depth := 0
	inOrderBy := false
	for i := range a {
		ta, tb := a[i], b[i]
		if ta.Kind == pglex.Punct {
			switch ta.Text {
			case "(", "[":
				depth++
			case ")", "]":
				depth--
			}
		}
		if depth == 0 && ta.Kind == pglex.Keyword {
			switch ta.Value {
			case "order":
				inOrderBy = true
			case "limit", "offset":
				inOrderBy = false
			}
		}
		if ta.Kind == tb.Kind && ta.Text == tb.Text {
			continue
		}
		// the only legal difference: an output column alias renamed by rho
		isName := func(t pglex.Token) bool {
			return t.Kind == pglex.Ident || t.Kind == pglex.QIdent || t.Kind == pglex.Keyword
		}
		want, renamed := rv[ta.Text]
		aliasPos := depth == 0 && i > 0 && a[i-1].Kind == pglex.Keyword && a[i-1].Value == "as"
		bare := !(i > 0 && a[i-1].Text == ".") && !(i+1 < len(a) && (a[i+1].Text == "." || a[i+1].Text == "("))
		orderPos := depth == 0 && inOrderBy && bare
		if isName(ta) && isName(tb) && renamed && tb.Text == want && (aliasPos || orderPos) {
			continue
		}
		if isName(ta) && isName(tb) && renamed && tb.Text == want {
			where := "expression"
			switch {
			case i > 0 && a[i-1].Kind == pglex.Keyword && a[i-1].Value == "as":
				where = "inner-select-alias"
			case i > 0 && a[i-1].Text == ".":
				where = "column-reference"
			case inColumnList(a, i):
				where = "cte-column-list"
			}
			return fmt.Sprintf("user name inside the statement (%s): token %d is %s vs %s (context: ...%s... vs ...%s...)", where, i, ta, tb, around(a, i), around(b, i))
		}
		return fmt.Sprintf("token %d differs: %s vs %s (context: ...%s... vs ...%s...)", i, ta, tb, around(a, i), around(b, i))
	}
	return ""
}

// inColumnList reports whether token i sits in a parenthesised list of bare names that is followed by AS ( - the
// column list of a CTE: name(col, col) as (...).
func inColumnList(toks []pglex.Token, i int) bool {
	j := i
	for j < len(toks) && toks[j].Text != ")" {
		if toks[j].Kind != pglex.Ident && toks[j].Kind != pglex.Keyword && toks[j].Text != "," {
			return false
		}
		j++
	}
	return j+2 < len(toks) && toks[j+1].Kind == pglex.Keyword && toks[j+1].Value == "as" && toks[j+2].Text == "("
}

func around(toks []pglex.Token, i int) string {
	lo, hi := i-4, i+4
	if lo < 0 {
		lo = 0
	}
	if hi > len(toks) {
		hi = len(toks)
	}
	var parts []string
	for _, t := range toks[lo:hi] {
		parts = append(parts, t.Text)
	}
	return strings.Join(parts, " ")
}

// judge evaluates one renaming; it returns nil or a violation.
func judge(it xlate.Item, q *cypher.RegularQuery, syms *symbolNodes, base translated, r renaming, km *xlate.Mapper) *core.Violation {
	ren := translateWith(q, syms, r, km)
	// cross-namespace collision after renaming?
	finalVar := map[string]bool{}
	for _, v := range syms.Vars {
		if to, ok := r.Vars[v]; ok {
			finalVar[to] = true
		} else {
			finalVar[v] = true
		}
	}
	collision := false
	for _, p := range syms.Params {
		name := p
		if to, ok := r.Params[p]; ok {
			name = to
		}
		if finalVar[name] || contains(syms.Vars, p) {
			collision = true // a parameter shares its name with a variable in the renamed or in the original query
		}
	}
	var fams []string
	seen := map[string]bool{}
	for _, m := range []map[string]string{r.Vars, r.Params} {
		for from, to := range m {
			if from != to && !seen[family(to)] {
				seen[family(to)] = true
				fams = append(fams, family(to))
			}
		}
	}
	sort.Strings(fams)
	tag := strings.Join(fams, "+")
	art := artefact{Text: it.Text, Source: it.Source, Renaming: r}
	mk := func(class, summary string) *core.Violation {
		return &core.Violation{Class: class, Summary: fmt.Sprintf("%s [query: %s; renaming: %s]", summary, it.Text, r), Artefact: art}
	}
	switch {
	case ren.kind == "panic":
		if collision {
			return mk("parameter-named-like-variable-panics", "the renamed query makes Translate panic: "+ren.panicV)
		}
		return mk("renamed-query-panics:"+tag, "the renamed query makes Translate panic: "+ren.panicV)
	case base.kind == "ok" && ren.kind == "error":
		if collision {
			return mk("parameter-named-like-variable-rejected", "translatable query becomes an error after renaming: "+ren.err)
		}
		return mk("renaming-makes-query-untranslatable:"+tag, "translatable query becomes an error after renaming: "+ren.err)
	case base.kind == "error" && ren.kind == "ok":
		if collision {
			return mk("parameter-named-like-variable-accepted", "rejected query ("+base.err+") becomes translatable after renaming")
		}
		return mk("renaming-makes-query-translatable:"+tag, "rejected query ("+base.err+") becomes translatable after renaming")
	case base.kind == "ok" && ren.kind == "ok":
		if diff := compare(base, ren, r.Vars); diff != "" {
			if collision {
				return mk("parameter-named-like-variable-changes-sql", diff)
			}
			if strings.HasPrefix(diff, "user name inside the statement (") {
				where := diff[len("user name inside the statement ("):strings.Index(diff, ")")]
				return mk("user-name-emitted-inside-statement:"+where, diff)
			}
			return mk("renaming-changes-sql-structure:"+tag, diff)
		}
	}
	return nil
}

// perms appends all injective maps from syms into pool (pool must have at least len(syms) names).
func injective(syms, pool []string, visit func(map[string]string)) {
	used := make([]bool, len(pool))
	cur := map[string]string{}
	var rec func(i int)
	rec = func(i int) {
		if i == len(syms) {
			m := make(map[string]string, len(cur))
			for k, v := range cur {
				m[k] = v
			}
			visit(m)
			return
		}
		for j, name := range pool {
			if used[j] {
				continue
			}
			used[j] = true
			cur[syms[i]] = name
			rec(i + 1)
			delete(cur, syms[i])
			used[j] = false
		}
	}
	rec(0)
}

// renamings enumerates the renaming space of one query (see the rule string in main).
func renamings(syms *symbolNodes, sqlIdents []string, level int, legal map[string]bool) []renaming {
	var out []renaming
	keep := func(names []string) []string {
		var o []string
		seen := map[string]bool{}
		for _, n := range names {
			if legal[n] && !seen[n] {
				seen[n] = true
				o = append(o, n)
			}
		}
		return o
	}
	pool := keep(append(append(append([]string{}, sqlIdents...), staticPool...), fresh[:2]...))
	// sub-pool: one generated name per prefix family present in this query's SQL, then static internal names, one fresh
	var sub []string
	famSeen := map[string]bool{}
	for _, n := range keep(append(append([]string{}, sqlIdents...), staticPool...)) {
		if f := family(n); reGenerated.MatchString(n) && !famSeen[f] {
			famSeen[f] = true
			sub = append(sub, n)
		}
	}
	for _, n := range []string{"path", "depth", "_kind", "root_id", "node"} {
		if len(sub) < 5 && legal[n] {
			sub = append(sub, n)
		}
	}
	if len(sub) > 5 {
		sub = sub[:5]
	}
	sub = append(sub, fresh[0])

	// 0. baseline: everything to fresh names (validates that consistent renaming itself is invisible)
	if len(syms.Vars)+len(syms.Params) > 0 {
		r := renaming{Vars: map[string]string{}, Params: map[string]string{}}
		for i, v := range syms.Vars {
			r.Vars[v] = fmt.Sprintf("zqv%d", i)
		}
		for i, p := range syms.Params {
			r.Params[p] = fmt.Sprintf("zqp%d", i)
		}
		out = append(out, r)
	}
	single := pool
	if level == 0 {
		// three-feature queries: one generated name of up to four prefix families of this query's SQL
		// (families that bind values - i<N>, n<N>, e<N>, path composites - before frame names)
		single = nil
		for _, fam := range []string{"i<N>", "n<N>", "e<N>", "pc<N>", "ep<N>", "s<N>", "pi<N>"} {
			for _, n := range sub {
				if family(n) == fam && len(single) < 4 {
					single = append(single, n)
				}
			}
		}
	}
	// 1. one symbol at a time -> every pool name
	for _, v := range syms.Vars {
		for _, n := range single {
			if n != v && !contains(syms.Vars, n) {
				out = append(out, renaming{Vars: map[string]string{v: n}})
			}
		}
	}
	for _, p := range syms.Params {
		for _, n := range single {
			if n != p && !contains(syms.Params, n) {
				out = append(out, renaming{Params: map[string]string{p: n}})
			}
		}
		// cross-namespace: the parameter takes the name of each variable (the variable keeps its name)
		for _, v := range syms.Vars {
			if v != p && !contains(syms.Params, v) {
				out = append(out, renaming{Params: map[string]string{p: v}})
			}
		}
	}
	for _, v := range syms.Vars {
		for _, p := range syms.Params {
			if v != p && !contains(syms.Vars, p) {
				out = append(out, renaming{Vars: map[string]string{v: p}})
			}
		}
	}
	if level == 0 {
		return out
	}
	// 2. permutations of the query's own variable names
	if n := len(syms.Vars); n >= 2 && n <= 4 {
		injective(syms.Vars, syms.Vars, func(m map[string]string) {
			identity := true
			for k, v := range m {
				identity = identity && k == v
			}
			if !identity {
				out = append(out, renaming{Vars: m})
			}
		})
	}
	// 3. all injective maps of all variables into the 6-name sub-pool (<= 3 variables), parameters into the same names
	maxAll := 2
	if level >= 2 {
		maxAll = 3
	}
	if n := len(syms.Vars); n >= 1 && n <= maxAll {
		injective(syms.Vars, sub, func(m map[string]string) {
			r := renaming{Vars: m}
			if len(syms.Params) > 0 && len(syms.Params) <= len(sub) {
				// cross-namespace: parameters take (some of) the same names
				// (injective within the parameter namespace: the i-th parameter takes the i-th variable's new name)
				r.Params = map[string]string{}
				for i, p := range syms.Params {
					if i < len(syms.Vars) {
						r.Params[p] = m[syms.Vars[i]]
					}
				}
			}
			out = append(out, r)
		})
	}
	if level >= 2 {
		// 4. every pair of variables into every ordered pair of distinct names of a 12-name pool
		big := keep(append(append([]string{}, sub...), "s1", "n1", "e1", "ep0", "path", "root_id"))
		if len(big) > 8 {
			big = big[:8]
		}
		for i := 0; i < len(syms.Vars); i++ {
			for j := i + 1; j < len(syms.Vars); j++ {
				injective([]string{syms.Vars[i], syms.Vars[j]}, big, func(m map[string]string) {
					for _, to := range m {
						if contains(syms.Vars, to) {
							return
						}
					}
					out = append(out, renaming{Vars: m})
				})
			}
		}
	}
	return out
}

func contains(xs []string, x string) bool {
	for _, y := range xs {
		if x == y {
			return true
		}
	}
	return false
}

func sqlIdentifiers(sql string) []string {
	toks, _ := pglex.Lex(sql)
	seen := map[string]bool{}
	var out []string
	for i, t := range toks {
		if t.Kind != pglex.Ident || seen[t.Text] {
			continue
		}
		if i+1 < len(toks) && toks[i+1].Text == "(" {
			continue // function name
		}
		seen[t.Text] = true
		out = append(out, t.Text)
	}
	return out
}

func legalNames() map[string]bool {
	legal := map[string]bool{}
	cands := append(append([]string{}, staticPool...), fresh...)
	for i := 0; i < 40; i++ {
		for _, p := range []string{"n", "e", "s", "i", "pi", "ep", "pc", "ex", "zqv", "zqp"} {
			cands = append(cands, fmt.Sprintf("%s%d", p, i))
		}
	}
	for _, n := range cands {
		if _, err := cyq.Parse("MATCH (" + n + ") RETURN " + n); err == nil {
			legal[n] = true
		}
	}
	return legal
}

func main() {
	run := core.Start("C06", "exploration")
	legal := legalNames()
	if run.Replay != "" {
		replay(run)
		return
	}
	type plan struct {
		k, level int
	}
	plans := []plan{{2, 1}}
	if run.Tier == core.Thorough {
		plans = []plan{{2, 2}, {3, 0}}
	}
	run.Set("rule", "for every enumerated / corpus query (translatable or rejected) and every renaming rho of its Variable and Parameter symbols in: {all symbols -> fresh names; each single symbol -> each name of (identifiers of the query's own SQL + translator-internal pool + fresh); each parameter -> each variable's name and vice versa; permutations of the query's own variables; all injective maps of <= 2 (quick) / <= 3 (thorough) variables into a 6-name sub-pool holding one generated name per prefix family used by the query's SQL, parameters mapped onto the same names; thorough: every variable pair into all ordered pairs of an 8-name pool (k=2) and single-symbol renamings into up to four generated names of the query's own SQL (k=3)}: translate rho(q) and compare token sequences")
	var (
		mu          sync.Mutex
		evals       int64
		queries     int64
		symbolsSeen int64
		outcomes    = map[string]int64{}
		distinct    = map[string]bool{}
	)
	type finding struct {
		order int
		v     core.Violation
	}
	var findings []finding
	seenText := map[string]bool{}
	for pi, pl := range plans {
		items := xlate.Items(pl.k)
		if pi > 0 {
			// the corpus and the smaller enumeration were covered by the first plan
			var rest []xlate.Item
			for _, it := range items {
				if !seenText[it.Text] {
					rest = append(rest, it)
				}
			}
			items = rest
		}
		for _, it := range items {
			seenText[it.Text] = true
		}
		mappers := make([]*xlate.Mapper, xlate.Workers())
		for i := range mappers {
			mappers[i] = xlate.NewMapper()
		}
		xlate.Parallel(len(items), func(w, i int) {
			if run.TimeUp() {
				run.Capped("deadline")
				return
			}
			it := items[i]
			q, err := xlate.ParseItem(it)
			if err != nil {
				return
			}
			syms := collect(q)
			if it.Source == "calls" {
				return // function calls at every arity are C05's inputs: renaming does not bear on them
			}
			base := translateWith(q, syms, renaming{}, mappers[w])
			mu.Lock()
			outcomes[base.kind]++
			mu.Unlock()
			if base.kind == "panic" || base.kind == "parse-error" {
				return // C05's business
			}
			var idents []string
			if base.kind == "ok" {
				idents = sqlIdentifiers(base.sql)
			}
			rs := renamings(syms, idents, pl.level, legal)
			var local []finding
			for ri, r := range rs {
				v := judge(it, q, syms, base, r, mappers[w])
				if v == nil {
					continue
				}
				if len(r.Vars)+len(r.Params) > 1 && ri > 0 {
					// attribute to the smallest renaming: if renaming one of the symbols alone already fails, that
					// single-symbol renaming is (or will be) reported by itself
					explained := false
					for from, to := range r.Vars {
						if from != to && judge(it, q, syms, base, renaming{Vars: map[string]string{from: to}}, mappers[w]) != nil {
							explained = true
						}
					}
					for from, to := range r.Params {
						if from != to && judge(it, q, syms, base, renaming{Params: map[string]string{from: to}}, mappers[w]) != nil {
							explained = true
						}
					}
					if explained {
						continue
					}
				}
				local = append(local, finding{pi*100000000 + i*1000 + ri%1000, *v})
				if ri == 0 {
					break // even renaming to fresh names is visible: every other renaming of this query would repeat it
				}
			}
			mu.Lock()
			evals += int64(len(rs))
			queries++
			symbolsSeen += int64(len(syms.Vars) + len(syms.Params))
			if len(rs) > 1 {
				distinct[it.Text] = true
			}
			findings = append(findings, local...)
			mu.Unlock()
			if i == 0 || i == len(items)/2 || i == len(items)-1 {
				run.Sample(map[string]any{"text": it.Text, "variables": syms.Vars, "parameters": syms.Params, "renamings": len(rs), "base_outcome": base.kind})
			}
		})
	}
	scopeReuse(run, xlate.NewMapper())
	sort.SliceStable(findings, func(i, j int) bool { return findings[i].order < findings[j].order })
	hist := map[string]int64{}
	for _, f := range findings {
		hist[f.v.Class]++
		if os.Getenv("C06_DEBUG") != "" && hist[f.v.Class] <= 8 {
			fmt.Printf("DEBUG\t%s\t%s\n", f.v.Class, f.v.Summary)
		}
		run.Report(f.v)
	}
	run.Add("evaluations", evals)
	run.Add("queries_renamed", queries)
	run.Add("user_symbols", symbolsSeen)
	run.Set("distinct_nontrivial", int64(len(distinct)))
	run.Set("base_outcomes", outcomes)
	run.Set("legal_pool_names", int64(len(legal)))
	run.Set("finding_histogram", hist)
	run.Assume("renamings of the main part are injective; legal non-injective spellings (a name re-used after a WITH dropped or replaced it) are enumerated from 6 templates with name slots (scopes.go)")
	run.Assume("renaming is applied to every *cypher.Variable and *cypher.Parameter node of the parsed model (reflection walk); symbols that are not plain identifiers (`*`, back-ticked names) are left alone")
	run.Assume("token comparison uses the pglex model of PostgreSQL's lexer; an alias position is an identifier after AS, or a bare name in ORDER BY, at parenthesis depth 0")
	run.Finish()
}

func replay(run *core.Run) {
	var art artefact
	core.LoadArtefact(run.Replay, &art)
	q, err := cyq.Parse(art.Text)
	if err != nil {
		core.Fatalf("parse: %v", err)
	}
	km := xlate.NewMapper()
	syms := collect(q)
	base := translateWith(q, syms, renaming{}, km)
	ren := translateWith(q, syms, art.Renaming, km)
	fmt.Println("query     :", art.Text)
	fmt.Println("renaming  :", art.Renaming)
	fmt.Printf("original  : %s %s%s\n            %s\n            params %s\n", base.kind, base.err, base.panicV, base.sql, base.params)
	fmt.Printf("renamed   : %s %s%s\n            %s\n            params %s\n", ren.kind, ren.err, ren.panicV, ren.sql, ren.params)
	if v := judge(xlate.Item{Text: art.Text, Source: art.Source}, q, syms, base, art.Renaming, km); v != nil {
		fmt.Println("verdict   :", v.Class, "-", v.Summary)
		run.Report(*v)
	} else {
		fmt.Println("replay: no violation")
	}
	run.Finish()
}
