package main

import (
	"fmt"
	"strings"

	"verif/core"
	"verif/pglex"
	"verif/xlate"
)

// Scope re-use: renamings that are not injective over the whole query but legal, because the two symbols that end up
// with one spelling never share a scope (a name dropped by a WITH is used again afterwards; a WITH alias takes the
// spelling of a variable that the same WITH replaces; two WITH aliases swap the names of the variables they project).
// The per-query renamings of the main part are injective, so these spellings are enumerated here from templates with
// name slots. Every output column is aliased explicitly, so the SQL of two fillings of one template must be identical
// token for token.
type scopeTemplate struct {
	name     string
	text     string // slots {A} {B} {C}
	fillings [][]string
}

var scopeTemplates = []scopeTemplate{
	{"name-dropped-by-with-used-again",
		"MATCH ({A}:NodeKind1) WHERE {A}.name = 'a' WITH count({A}) AS total MATCH p = ({B}:NodeKind1)-[:EdgeKind1*0..]->(g:NodeKind2)-[:EdgeKind2]->(d:NodeKind1) WHERE d.name = 'a' RETURN p AS o1, total AS o2",
		[][]string{{"u", "s"}, {"s", "s"}, {"s", "u"}, {"g", "s"}, {"d", "s"}}},
	{"name-dropped-by-with-used-again-single-step",
		"MATCH ({A}:NodeKind1) WITH count({A}) AS total MATCH ({B}:NodeKind1)-[r:EdgeKind1]->(m:NodeKind2) RETURN {B}.name AS o1, m.name AS o2, total AS o3",
		[][]string{{"u", "s"}, {"s", "s"}, {"m", "s"}, {"r", "s"}}},
	{"with-alias-takes-a-replaced-name",
		"MATCH (n:NodeKind1)-[:EdgeKind1]->(o:NodeKind2) WITH n AS {A}, o AS {B} RETURN {A}.name AS o1, {B}.name AS o2",
		[][]string{{"a", "b"}, {"o", "n"}, {"n", "o"}, {"o", "b"}, {"a", "n"}}},
	{"with-alias-then-match",
		"MATCH (n:NodeKind1)-[:EdgeKind1]->(o:NodeKind2) WITH n AS {A}, o AS {B} MATCH ({B})-[:EdgeKind2]->({C}) RETURN {A}.name AS o1, {C}.name AS o2",
		[][]string{{"a", "b", "c"}, {"o", "n", "c"}, {"a", "b", "n"}, {"a", "b", "o"}, {"o", "n", "x"}}},
	{"unwind-variable-dropped-and-used-again",
		"UNWIND ['a', 'b'] AS {A} WITH collect({A}) AS xs MATCH ({B}:NodeKind1) WHERE {B}.name IN xs RETURN {B}.name AS o1",
		[][]string{{"x", "n"}, {"n", "n"}, {"xs", "n"}},
	},
	{"aggregate-alias-spelled-like-a-dropped-variable",
		"MATCH (n:NodeKind1)-[:EdgeKind1]->(m) WITH n, count(m) AS {A} RETURN n.name AS o1, {A} AS o2 ORDER BY {A} DESC",
		[][]string{{"c", ""}, {"m", ""}},
	},
}

func fill(t scopeTemplate, f []string) string {
	text := t.text
	for i, slot := range []string{"{A}", "{B}", "{C}"} {
		if i < len(f) {
			text = strings.ReplaceAll(text, slot, f[i])
		}
	}
	return text
}

// scopeReuse runs every template: the first filling is the reference.
func scopeReuse(run *core.Run, km *xlate.Mapper) {
	for _, t := range scopeTemplates {
		var ref *xlate.Outcome
		var refText string
		for fi, f := range t.fillings {
			if t.name == "unwind-variable-dropped-and-used-again" && f[0] == "xs" {
				continue // {A} = xs would make collect(xs) AS xs: legal, but the alias then shadows differently
			}
			text := fill(t, f)
			o := xlate.Text(text, km.KindMapper, nil)
			run.Add("scope_reuse_translations", 1)
			if o.ParseErr != "" {
				core.Fatalf("scope template %s filling %v does not parse: %s", t.name, f, o.ParseErr)
			}
			if fi == 0 {
				ref, refText = o, text
				continue
			}
			a := artefact{Text: text, Source: "scope-reuse:" + t.name}
			switch {
			case ref.OK() != o.OK():
				run.Report(core.Violation{Class: "legal-name-reuse-changes-translatability:" + t.name + ":" + strings.Join(f, ","), Summary: fmt.Sprintf("%q translates (%v) but %q, the same query with a name re-used outside the scope of its first use, does not (%v): %s%s%s", refText, ref.OK(), text, o.OK(), o.Err, o.Panic, ref.Err), Artefact: a})
			case o.OK():
				ta, _ := pglex.Lex(ref.SQL)
				tb, _ := pglex.Lex(o.SQL)
				diff := ""
				if len(ta) != len(tb) {
					diff = fmt.Sprintf("token counts differ (%d vs %d)", len(ta), len(tb))
				} else {
					for i := range ta {
						if ta[i].Kind != tb[i].Kind || ta[i].Text != tb[i].Text {
							diff = fmt.Sprintf("token %d differs: %s vs %s (context: ...%s... vs ...%s...)", i, ta[i], tb[i], around(ta, i), around(tb, i))
							break
						}
					}
				}
				if diff != "" {
					run.Report(core.Violation{Class: "legal-name-reuse-changes-sql:" + t.name + ":" + strings.Join(f, ","), Summary: fmt.Sprintf("%q and %q differ only in the spelling of names whose scopes do not overlap, their SQL differs: %s", refText, text, diff), Artefact: a})
				}
			}
		}
	}
}
