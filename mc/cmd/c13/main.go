// Command c13 decides property C13 (ID-set providers implement exact set algebra across all implementation pairings).
package main

import (
	"fmt"
	"os"
	"sync"

	"verif/bfs"
	"verif/core"
)

func main() {
	run := core.Start("C13", "model_checking")
	if os.Getenv("VERIF_RACE_CHILD") != "" {
		raceChild(run.Tier)
		return
	}
	depth := 4
	if run.Tier == core.Thorough {
		depth = 7
	}
	probs := seqProblems(depth)
	if run.Replay != "" {
		var art struct {
			Problem string   `json:"problem"`
			Ops     []string `json:"ops"`
		}
		core.LoadArtefact(run.Replay, &art)
		if art.Problem == "" {
			replayConc(run)
		}
		for _, p := range probs {
			if p.Name == art.Problem {
				p.Depth = len(art.Ops)
				if v := bfs.Replay(p, art.Ops); v != nil {
					v.Artefact = art
					run.Report(*v)
				} else {
					fmt.Println("replay: no violation")
				}
			}
		}
		run.Finish()
	}
	if _, _, isWorker := run.Worker(); isWorker {
		runConcurrent(run)
		run.Finish()
	}
	// sequential part first (cheap, and it must never be starved by the concurrent part's budget)
	var wg sync.WaitGroup
	sem := make(chan struct{}, 16)
	for _, p := range probs {
		wg.Add(1)
		sem <- struct{}{}
		go func() {
			defer wg.Done()
			defer func() { <-sem }()
			st := bfs.Explore(run, p)
			run.Add("states", st.States)
			run.Add("transitions", st.Transitions)
			run.Add("seq_problems", 1)
			run.Sample(map[string]any{"problem": p.Name, "depth": depth, "states": st.States, "transitions": st.Transitions, "alphabet_size": p.NumOps})
		}()
	}
	wg.Wait()
	run.Fork(16, "GOMAXPROCS=1")
	run.Set("seq_depth_bound", int64(depth))
	run.RacePass("--tier", string(run.Tier))
	run.Set("traces_validated_against_impl", run.Get("transitions"))
	run.Finish()
}

func replayConc(run *core.Run) {
	var art struct {
		Scenario string `json:"scenario"`
		Choices  []int  `json:"choices"`
	}
	core.LoadArtefact(run.Replay, &art)
	for _, c := range wspecs(core.Thorough) {
		if c.name() == art.Scenario {
			res, obs, v := c.scenario().Execute(art.Choices, true)
			for _, l := range res.Trace {
				fmt.Println("  ", l)
			}
			fmt.Println("observation:", obs)
			if v != nil {
				v.Artefact = art
				run.Report(*v)
			} else {
				fmt.Println("replay: no violation")
			}
			run.Finish()
		}
	}
	core.Fatalf("scenario %q not found", art.Scenario)
}
