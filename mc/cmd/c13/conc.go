package main

import (
	"fmt"
	"sort"
	"strings"
	"sync"

	"github.com/specterops/dawgs/cardinality"

	"verif/core"
	"verif/sched"
)

// Concurrent part of C13: two thread-safe wrappers a and b, small thread programs over both (including in-place binary
// operations whose operand is the other wrapper), every interleaving under the controlled scheduler (the wrappers'
// mutex operations are the scheduling points). Oracle: the call/return history is linearizable with respect to a pair
// of mathematical sets (binary operations: one consistent read of the operand, then one atomic update of the receiver);
// no deadlock, no panic.

type wop struct {
	Kind string `json:"kind"`
	X    int    `json:"x"` // receiver: 0 = a, 1 = b
	V    uint64 `json:"v"`
}

func (o wop) String() string {
	x, y := "abp"[o.X:o.X+1], "baa"[o.X:o.X+1]
	switch o.Kind {
	case "Add", "Remove", "Contains", "CheckedAdd":
		return fmt.Sprintf("%s.%s(%d)", x, o.Kind, o.V)
	case "Cardinality", "Slice", "Clear":
		return fmt.Sprintf("%s.%s()", x, o.Kind)
	}
	return fmt.Sprintf("%s.%s(%s)", x, o.Kind, y)
}

type wevent struct {
	thread    int
	op        wop
	res       string
	call, ret int
}

type wspec struct {
	Width   int     `json:"width"`
	Threads [][]wop `json:"threads"`
}

func (c wspec) name() string {
	var ts []string
	for _, t := range c.Threads {
		var os []string
		for _, o := range t {
			os = append(os, o.String())
		}
		ts = append(ts, strings.Join(os, ";"))
	}
	return fmt.Sprintf("conc/uint%d/a={1,2},b={2,3},p={1,2,3}/%s", c.Width, strings.Join(ts, " || "))
}

type duplexPair interface {
	apply(o wop) string
}

type pairOf[T integer] struct{ d [3]cardinality.Duplex[T] }

func newPairOf[T integer]() *pairOf[T] {
	p := &pairOf[T]{}
	p.d[0] = newDuplex[T](wrapped)
	p.d[1] = newDuplex[T](wrapped)
	p.d[0].Add(1, 2)
	p.d[1].Add(2, 3)
	p.d[2] = newDuplex[T](plain) // thread-confined plain bitmap; its binary operations take wrapper a as operand
	p.d[2].Add(1, 2, 3)
	return p
}

func other(x int) int {
	if x == 2 {
		return 0
	}
	return 1 - x
}

func (p *pairOf[T]) apply(o wop) string {
	x, y := p.d[o.X], p.d[other(o.X)]
	switch o.Kind {
	case "Add":
		x.Add(T(o.V))
	case "Remove":
		x.Remove(T(o.V))
	case "Contains":
		return fmt.Sprint(x.Contains(T(o.V)))
	case "CheckedAdd":
		return fmt.Sprint(x.CheckedAdd(T(o.V)))
	case "Cardinality":
		return fmt.Sprint(x.Cardinality())
	case "Slice":
		return fmt.Sprint(x.Slice())
	case "Clear":
		x.Clear()
	case "Or":
		x.Or(y)
	case "And":
		x.And(y)
	case "AndNot":
		x.AndNot(y)
	case "Xor":
		x.Xor(y)
	}
	return ""
}

// specApply is the sequential specification on a pair of sets.
func specApply(st *[3]map[uint64]bool, o wop) string {
	x, y := st[o.X], st[other(o.X)]
	switch o.Kind {
	case "Add":
		x[o.V] = true
	case "Remove":
		delete(x, o.V)
	case "Contains":
		return fmt.Sprint(x[o.V])
	case "CheckedAdd":
		had := x[o.V]
		x[o.V] = true
		return fmt.Sprint(!had)
	case "Cardinality":
		return fmt.Sprint(len(x))
	case "Slice":
		vs := make([]uint64, 0, len(x))
		for v := range x {
			vs = append(vs, v)
		}
		sort.Slice(vs, func(i, j int) bool { return vs[i] < vs[j] })
		return fmt.Sprint(vs)
	case "Clear":
		for v := range x {
			delete(x, v)
		}
	case "Or":
		for v := range y {
			x[v] = true
		}
	case "And":
		for v := range x {
			if !y[v] {
				delete(x, v)
			}
		}
	case "AndNot":
		for v := range y {
			delete(x, v)
		}
	case "Xor":
		for v := range y {
			if x[v] {
				delete(x, v)
			} else {
				x[v] = true
			}
		}
	}
	return ""
}

func cloneState(st [3]map[uint64]bool) [3]map[uint64]bool {
	var o [3]map[uint64]bool
	for i := range st {
		o[i] = map[uint64]bool{}
		for v := range st[i] {
			o[i][v] = true
		}
	}
	return o
}

func isBinary(k string) bool { return k == "Or" || k == "And" || k == "AndNot" || k == "Xor" }

// wLinearizable brute-forces all orders compatible with real time. A unary operation takes effect at one instant inside
// its call interval. An in-place binary operation x.Op(y) takes effect in two instants inside its interval: it first reads
// one consistent state of the operand y, later it updates x atomically with that state (no implementation that avoids
// holding two wrapper locks at once can do better, and the property does not ask for cross-object atomicity).
func wLinearizable(events []*wevent, final [3]string) bool {
	type item struct {
		e     *wevent
		phase int // 0 = whole unary op, 1 = operand read, 2 = receiver update
		dep   int // index of the read this update depends on, -1 otherwise
	}
	var items []item
	for _, e := range events {
		if isBinary(e.op.Kind) {
			items = append(items, item{e, 1, -1})
			items = append(items, item{e, 2, len(items) - 1})
		} else {
			items = append(items, item{e, 0, -1})
		}
	}
	n := len(items)
	placed := make([]bool, n)
	snaps := make([]map[uint64]bool, n)
	var rec func(done int, st [3]map[uint64]bool) bool
	rec = func(done int, st [3]map[uint64]bool) bool {
		if done == n {
			for i := range st {
				if specApply(&st, wop{Kind: "Slice", X: i}) != final[i] {
					return false
				}
			}
			return true
		}
		for i, it := range items {
			if placed[i] || (it.dep >= 0 && !placed[it.dep]) {
				continue
			}
			ok := true
			for j, f := range items {
				if !placed[j] && j != i && f.e.ret < it.e.call {
					ok = false
					break
				}
			}
			if !ok {
				continue
			}
			ns := cloneState(st)
			switch it.phase {
			case 0:
				if specApply(&ns, it.e.op) != it.e.res {
					continue
				}
			case 1:
				snap := map[uint64]bool{}
				for v := range ns[other(it.e.op.X)] {
					snap[v] = true
				}
				snaps[i] = snap
			case 2:
				// apply with the operand state captured by the read
				saved := ns[other(it.e.op.X)]
				ns[other(it.e.op.X)] = snaps[it.dep]
				specApply(&ns, it.e.op)
				ns[other(it.e.op.X)] = saved
			}
			placed[i] = true
			if rec(done+1, ns) {
				return true
			}
			placed[i] = false
		}
		return false
	}
	return rec(0, [3]map[uint64]bool{{1: true, 2: true}, {2: true, 3: true}, {1: true, 2: true, 3: true}})
}

func (c wspec) newPair() duplexPair {
	if c.Width == 32 {
		return newPairOf[uint32]()
	}
	return newPairOf[uint64]()
}

func (c wspec) scenario() *sched.Scenario {
	return &sched.Scenario{
		Name: c.name(),
		New: func() (func(s *sched.Scheduler), func(r *sched.Result) (string, *core.Violation)) {
			p := c.newPair()
			var (
				clock  int
				events []*wevent
			)
			main := func(s *sched.Scheduler) {
				for ti, prog := range c.Threads {
					ti, prog := ti, prog
					s.Go(fmt.Sprintf("t%d", ti), func() {
						for _, o := range prog {
							e := &wevent{thread: ti, op: o}
							events = append(events, e)
							clock++
							e.call = clock
							e.res = p.apply(o)
							clock++
							e.ret = clock
						}
					})
				}
			}
			check := func(r *sched.Result) (string, *core.Violation) {
				if r.Outcome != sched.Completed {
					return r.Outcome.String(), nil
				}
				final := [3]string{p.apply(wop{Kind: "Slice", X: 0}), p.apply(wop{Kind: "Slice", X: 1}), p.apply(wop{Kind: "Slice", X: 2})}
				var sb strings.Builder
				for _, e := range events {
					fmt.Fprintf(&sb, "T%d:%v=%s@[%d,%d] ", e.thread, e.op, e.res, e.call, e.ret)
				}
				fmt.Fprintf(&sb, "final a=%s b=%s p=%s", final[0], final[1], final[2])
				if !wLinearizable(events, final) {
					return "bad", &core.Violation{Class: "not-linearizable", Summary: "history has no linearization against the set specification: " + sb.String()}
				}
				obs := final[0] + final[1] + final[2]
				for _, e := range events {
					obs += e.res + ","
				}
				return obs, nil
			}
			return main, check
		},
	}
}

func wspecs(tier core.Tier) []wspec {
	var alpha []wop
	for x := 0; x < 2; x++ {
		alpha = append(alpha, wop{"Add", x, 3}, wop{"Remove", x, 2}, wop{"Contains", x, 2}, wop{"Cardinality", x, 0}, wop{"CheckedAdd", x, 3},
			wop{"Or", x, 0}, wop{"And", x, 0}, wop{"AndNot", x, 0}, wop{"Xor", x, 0})
	}
	if tier == core.Thorough {
		for x := 0; x < 2; x++ {
			alpha = append(alpha, wop{"CheckedAdd", x, 2}, wop{"Slice", x, 0}, wop{"Clear", x, 0})
		}
	}
	mutates := func(ps ...[]wop) bool {
		for _, p := range ps {
			for _, o := range p {
				if o.Kind != "Contains" && o.Kind != "Cardinality" && o.Kind != "Slice" {
					return true
				}
			}
		}
		return false
	}
	var p1, p2 [][]wop
	for _, a := range alpha {
		p1 = append(p1, []wop{a})
		for _, b := range alpha {
			p2 = append(p2, []wop{a, b})
		}
	}
	widths := []int{64}
	if tier == core.Thorough {
		widths = []int{64, 32}
	}
	var out []wspec
	for _, w := range widths {
		// two threads: one operation each, and two against one/two
		for i := range p1 {
			for j := i; j < len(p1); j++ {
				if mutates(p1[i], p1[j]) {
					out = append(out, wspec{w, [][]wop{p1[i], p1[j]}})
				}
			}
		}
		for i := range p2 {
			for j := range p1 {
				if mutates(p2[i], p1[j]) {
					out = append(out, wspec{w, [][]wop{p2[i], p1[j]}})
				}
			}
		}
		// three threads, one operation each
		for i := range p1 {
			for j := i; j < len(p1); j++ {
				for k := j; k < len(p1); k++ {
					if mutates(p1[i], p1[j], p1[k]) {
						out = append(out, wspec{w, [][]wop{p1[i], p1[j], p1[k]}})
					}
				}
			}
		}
		// a thread-confined plain bitmap p whose binary operations read the shared wrapper a while other threads write a
		var pOps [][]wop
		for _, k := range []string{"Or", "And", "AndNot", "Xor"} {
			pOps = append(pOps, []wop{{k, 2, 0}})
		}
		aWriters := [][]wop{{{"Add", 0, 3}}, {{"Remove", 0, 2}}, {{"Add", 0, 3}, {"Remove", 0, 2}}, {{"Remove", 0, 1}, {"Add", 0, 3}}, {{"Clear", 0, 0}}, {{"Xor", 0, 0}}}
		for _, po := range pOps {
			for i, w1 := range aWriters {
				out = append(out, wspec{w, [][]wop{po, w1}})
				for _, w2 := range aWriters[i:] {
					out = append(out, wspec{w, [][]wop{po, w1, w2}})
				}
			}
		}
		if tier == core.Thorough && w == 64 {
			for i := range p2 {
				for j := i; j < len(p2); j++ {
					if mutates(p2[i], p2[j]) {
						out = append(out, wspec{w, [][]wop{p2[i], p2[j]}})
					}
				}
			}
		}
	}
	return out
}

func runConcurrent(run *core.Run) {
	specs := wspecs(run.Tier)
	outcomes := int64(0)
	for k, c := range specs {
		if !run.Mine(k) {
			continue
		}
		st := sched.Explore(run, c.scenario(), -1)
		run.Add("schedules", st.Executions)
		run.Add("scheduling_points", st.Points)
		run.Add("conc_scenarios", 1)
		if len(st.Outcomes) > 1 {
			run.Add("conc_scenarios_with_several_outcomes", 1)
		}
		outcomes += int64(len(st.Outcomes))
		if int64(st.MaxPoints) > run.Get("max_points_per_schedule") {
			run.Set("max_points_per_schedule", int64(st.MaxPoints))
		}
		if k%499 == 0 {
			run.Sample(map[string]any{"scenario": c.name(), "preemption_bound": "unbounded", "schedules": st.Executions, "distinct_outcomes": len(st.Outcomes)})
		}
		if run.TimeUp() {
			run.Capped("concurrent scenarios: deadline")
			break
		}
	}
	run.Add("distinct_outcomes", outcomes)
}

// race pass: the same programs as real goroutines, no scheduler
func raceChild(tier core.Tier) {
	iters := 20
	if tier == core.Thorough {
		iters = 200
	}
	specs := wspecs(core.Quick)
	n := 0
	for k, c := range specs {
		if tier == core.Quick && k%5 != 0 {
			continue
		}
		n++
		for it := 0; it < iters; it++ {
			p := c.newPair()
			var wg sync.WaitGroup
			for _, prog := range c.Threads {
				wg.Add(1)
				go func(prog []wop) {
					defer wg.Done()
					for _, o := range prog {
						p.apply(o)
					}
				}(prog)
			}
			wg.Wait()
		}
	}
	fmt.Printf("race pass: %d scenarios x %d free-running iterations\n", n, iters)
}
