package main

import (
	"crypto/sha256"
	"fmt"
	"sort"

	"github.com/specterops/dawgs/cardinality"

	"verif/bfs"
	"verif/core"
)

// Sequential part of C13: BFS over operation histories on a receiver R and an operand O, for every ordered pairing of
// implementations of one width. Canonical state = serialised roaring layout of both providers (container types and
// keys, via the overlay accessor) + reference sets; sound because a roaring bitmap's behaviour is a function of its
// containers, which the serialised form lists completely.

type integer interface{ uint32 | uint64 }

type window[T integer] struct {
	name    string
	singles []T
	block   T // first value of a dense block of blockLen consecutive values
}

const blockLen = 5000

type implKind int

const (
	plain implKind = iota
	wrapped
)

func (k implKind) String() string { return []string{"bitmap", "threadSafe(bitmap)"}[k] }

func newDuplex[T integer](k implKind) cardinality.Duplex[T] {
	var z T
	var d cardinality.Duplex[T]
	switch any(z).(type) {
	case uint32:
		d = any(cardinality.NewBitmap32()).(cardinality.Duplex[T])
	default:
		d = any(cardinality.NewBitmap64()).(cardinality.Duplex[T])
	}
	if k == wrapped {
		d = cardinality.ThreadSafeDuplex(d)
	}
	return d
}

type set[T integer] map[T]struct{}

func (s set[T]) sorted() []T {
	out := make([]T, 0, len(s))
	for v := range s {
		out = append(out, v)
	}
	sort.Slice(out, func(i, j int) bool { return out[i] < out[j] })
	return out
}
func (s set[T]) clone() set[T] {
	o := make(set[T], len(s))
	for v := range s {
		o[v] = struct{}{}
	}
	return o
}

type pair[T integer] struct {
	w      window[T]
	r, o   cardinality.Duplex[T]
	rr, ro set[T]
	ops    []seqOp[T]
}

type seqOp[T integer] struct {
	name string
	do   func(p *pair[T]) *core.Violation
}

func brief[T integer](vals []T) string {
	if len(vals) > 8 {
		return fmt.Sprintf("%v...(%d values)", vals[:8], len(vals))
	}
	return fmt.Sprint(vals)
}

// compare checks every read operation of d against the reference set.
func compare[T integer](who string, d cardinality.Duplex[T], ref set[T], probes []T) *core.Violation {
	want := ref.sorted()
	if got := d.Cardinality(); got != uint64(len(want)) {
		return &core.Violation{Class: "wrong-set", Summary: fmt.Sprintf("%s: Cardinality() = %d, reference has %d (%s)", who, got, len(want), brief(want))}
	}
	got := d.Slice()
	if len(got) != len(want) {
		return &core.Violation{Class: "wrong-set", Summary: fmt.Sprintf("%s: Slice() = %s, reference %s", who, brief(got), brief(want))}
	}
	for i := range got {
		if got[i] != want[i] {
			return &core.Violation{Class: "wrong-set", Summary: fmt.Sprintf("%s: Slice() = %s, reference %s", who, brief(got), brief(want))}
		}
	}
	for _, v := range probes {
		_, in := ref[v]
		if d.Contains(v) != in {
			return &core.Violation{Class: "wrong-set", Summary: fmt.Sprintf("%s: Contains(%d) = %v, reference %v", who, v, !in, in)}
		}
	}
	var each []T
	d.Each(func(v T) bool { each = append(each, v); return true })
	if len(each) != len(want) {
		return &core.Violation{Class: "wrong-iteration", Summary: fmt.Sprintf("%s: Each visited %s, reference %s", who, brief(each), brief(want))}
	}
	for i := range each {
		if each[i] != want[i] {
			return &core.Violation{Class: "wrong-iteration", Summary: fmt.Sprintf("%s: Each visited %s, reference %s", who, brief(each), brief(want))}
		}
	}
	calls := 0
	d.Each(func(v T) bool { calls++; return false })
	if (len(want) == 0 && calls != 0) || (len(want) > 0 && calls != 1) {
		return &core.Violation{Class: "wrong-iteration", Summary: fmt.Sprintf("%s: Each with a stopping delegate made %d calls on a set of %d", who, calls, len(want))}
	}
	return nil
}

func (p *pair[T]) probes() []T {
	pr := append([]T{}, p.w.singles...)
	pr = append(pr, p.w.block, p.w.block+1, p.w.block+blockLen-1, p.w.block+blockLen)
	return pr
}

func (p *pair[T]) Apply(op int) *core.Violation {
	if v := p.ops[op].do(p); v != nil {
		return v
	}
	if v := compare("receiver", p.r, p.rr, p.probes()); v != nil {
		return v
	}
	if v := compare("operand", p.o, p.ro, p.probes()); v != nil {
		v.Class = "operand-changed"
		return v
	}
	return nil
}

func (p *pair[T]) Canon() string {
	rb, ok1 := cardinality.VerifBytes(p.r)
	ob, ok2 := cardinality.VerifBytes(p.o)
	if !ok1 || !ok2 {
		core.Fatalf("VerifBytes does not know the provider types %T / %T", p.r, p.o)
	}
	h := sha256.New()
	h.Write(rb)
	h.Write([]byte{0xff, 0xfe})
	h.Write(ob)
	for _, v := range p.rr.sorted() {
		fmt.Fprintf(h, "r%d,", v)
	}
	for _, v := range p.ro.sorted() {
		fmt.Fprintf(h, "o%d,", v)
	}
	return string(h.Sum(nil))
}

func blockVals[T integer](w window[T], step T) []T {
	out := make([]T, 0, blockLen)
	for i := T(0); i < blockLen; i += step {
		out = append(out, w.block+i)
	}
	return out
}

func mkOps[T integer](w window[T]) []seqOp[T] {
	var ops []seqOp[T]
	for _, v := range w.singles {
		v := v
		ops = append(ops,
			seqOp[T]{fmt.Sprintf("R.Add(%d)", v), func(p *pair[T]) *core.Violation { p.r.Add(v); p.rr[v] = struct{}{}; return nil }},
			seqOp[T]{fmt.Sprintf("R.CheckedAdd(%d)", v), func(p *pair[T]) *core.Violation {
				_, had := p.rr[v]
				got := p.r.CheckedAdd(v)
				p.rr[v] = struct{}{}
				if got == had {
					return &core.Violation{Class: "checked-add", Summary: fmt.Sprintf("CheckedAdd(%d) = %v although present-before = %v", v, got, had)}
				}
				return nil
			}},
			seqOp[T]{fmt.Sprintf("R.Remove(%d)", v), func(p *pair[T]) *core.Violation { p.r.Remove(v); delete(p.rr, v); return nil }},
			seqOp[T]{fmt.Sprintf("O.Add(%d)", v), func(p *pair[T]) *core.Violation { p.o.Add(v); p.ro[v] = struct{}{}; return nil }},
			seqOp[T]{fmt.Sprintf("O.Remove(%d)", v), func(p *pair[T]) *core.Violation { p.o.Remove(v); delete(p.ro, v); return nil }},
		)
	}
	ops = append(ops,
		seqOp[T]{"R.Add(block...)", func(p *pair[T]) *core.Violation {
			vs := blockVals(w, 1)
			p.r.Add(vs...)
			for _, v := range vs {
				p.rr[v] = struct{}{}
			}
			return nil
		}},
		seqOp[T]{"R.Remove(every other block value)", func(p *pair[T]) *core.Violation {
			for _, v := range blockVals(w, 2) {
				p.r.Remove(v)
				delete(p.rr, v)
			}
			return nil
		}},
		seqOp[T]{"O.Add(block...)", func(p *pair[T]) *core.Violation {
			vs := blockVals(w, 1)
			p.o.Add(vs...)
			for _, v := range vs {
				p.ro[v] = struct{}{}
			}
			return nil
		}},
		seqOp[T]{"O.Add(every third block value...)", func(p *pair[T]) *core.Violation {
			vs := blockVals(w, 3)
			p.o.Add(vs...)
			for _, v := range vs {
				p.ro[v] = struct{}{}
			}
			return nil
		}},
		seqOp[T]{"R.Clear()", func(p *pair[T]) *core.Violation { p.r.Clear(); p.rr = set[T]{}; return nil }},
		seqOp[T]{"O.Clear()", func(p *pair[T]) *core.Violation { p.o.Clear(); p.ro = set[T]{}; return nil }},
		seqOp[T]{"R.Or(O)", func(p *pair[T]) *core.Violation {
			p.r.Or(p.o)
			for v := range p.ro {
				p.rr[v] = struct{}{}
			}
			return nil
		}},
		seqOp[T]{"R.And(O)", func(p *pair[T]) *core.Violation {
			p.r.And(p.o)
			for v := range p.rr {
				if _, in := p.ro[v]; !in {
					delete(p.rr, v)
				}
			}
			return nil
		}},
		seqOp[T]{"R.AndNot(O)", func(p *pair[T]) *core.Violation {
			p.r.AndNot(p.o)
			for v := range p.ro {
				delete(p.rr, v)
			}
			return nil
		}},
		seqOp[T]{"R.Xor(O)", func(p *pair[T]) *core.Violation {
			p.r.Xor(p.o)
			for v := range p.ro {
				if _, in := p.rr[v]; in {
					delete(p.rr, v)
				} else {
					p.rr[v] = struct{}{}
				}
			}
			return nil
		}},
		seqOp[T]{"R=R.Clone()", func(p *pair[T]) *core.Violation {
			c := p.r.Clone()
			if v := compare("clone", c, p.rr, p.probes()); v != nil {
				v.Class = "clone-differs"
				return v
			}
			// independence both ways
			probe := w.singles[0]
			_, had := p.rr[probe]
			if had {
				c.Remove(probe)
			} else {
				c.Add(probe)
			}
			if v := compare("original after editing its clone", p.r, p.rr, p.probes()); v != nil {
				v.Class = "clone-shares-state"
				return v
			}
			if had {
				c.Add(probe)
			} else {
				c.Remove(probe)
			}
			p.r.Clear()
			if v := compare("clone after clearing the original", c, p.rr, p.probes()); v != nil {
				v.Class = "clone-shares-state"
				return v
			}
			p.r = c
			return nil
		}},
	)
	return ops
}

func seqProblem[T integer](rk, ok implKind, w window[T], depth int) *bfs.Problem {
	ops := mkOps(w)
	var z T
	return &bfs.Problem{
		Name:   fmt.Sprintf("seq/%T/R=%s/O=%s/%s", z, rk, ok, w.name),
		NumOps: len(ops),
		OpName: func(op int) string { return ops[op].name },
		New: func() bfs.Instance {
			return &pair[T]{w: w, r: newDuplex[T](rk), o: newDuplex[T](ok), rr: set[T]{}, ro: set[T]{}, ops: ops}
		},
		Depth: depth,
	}
}

func seqProblems(depth int) []*bfs.Problem {
	var out []*bfs.Problem
	w32 := []window[uint32]{
		{"w=0,65535,65536/block@65000", []uint32{0, 65535, 65536}, 65000},
		{"w=1,131072,2^32-1/block@2^32-1-4999", []uint32{1, 131072, 1<<32 - 1}, 1<<32 - blockLen},
	}
	w64 := []window[uint64]{
		{"w=0,65535,65536/block@65000", []uint64{0, 65535, 65536}, 65000},
		{"w=2^32-1,2^32,2^32+1/block@2^32-2500", []uint64{1<<32 - 1, 1 << 32, 1<<32 + 1}, 1<<32 - 2500},
		{"w=7,2^48,2^63/block@2^48-1", []uint64{7, 1 << 48, 1 << 63}, 1<<48 - 1},
	}
	for _, rk := range []implKind{plain, wrapped} {
		for _, ok := range []implKind{plain, wrapped} {
			for _, w := range w32 {
				out = append(out, seqProblem(rk, ok, w, depth))
			}
			for _, w := range w64 {
				out = append(out, seqProblem(rk, ok, w, depth))
			}
		}
	}
	return out
}
