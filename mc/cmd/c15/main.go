// Command c15 decides property C15 (reachability answers equal true graph reachability regardless of query history).
//
// Engines E3 x E2. E3 enumerates every digraph inside the tier's bounds (enum/graphs; labelled graphs for the small
// sizes because Tarjan's numbering, the CSR dense index and therefore the component ids and the DFS order of
// componentReachDFS follow the numeric order of node ids; one representative per isomorphism class above that).
//
// Static part (per graph x container): StronglyConnectedComponents must partition the node set, two nodes share a
// component exactly when the naive BFS says each reaches the other, and the component digraph must be acyclic.
//
// History part (per graph x cache capacity): verif/bfs explores every sequence of queries
//
//	ReachOf(a,d)  ReachSliceOf(a,d)  OrReach(a,d)  XorReach(a,d)  CanReachAll(d) = CanReach(a,b,d) for every a,b
//	a,b in V, d in {out,in}
//
// to the depth bound on a real ReachabilityCache. The reference model is stateless (naive BFS over the edge list):
// the statement says every answer is a function of the graph alone. Canonical state = the complete internal state of
// both SIEVE caches (queue order, visited bits, hand, every cached component-reach bitmap by content and by pointer
// identity); the component graph is immutable after construction, and every query's answer and effect is a function
// of (component graph, cache state), so histories with equal canonical state have identical futures. Hit/miss
// counters are left out: no code path reads them.
//
// Readings made explicit: "reaches" is reflexive (the reach set of a member's component contains the component
// itself; CanReach(a,a) is true), as the documentation of ReachabilityCache says. OrReach/XorReach are documented to
// leave the queried node out (OrReach: out of the result; XorReach: out of the reach before the XOR); the harness calls
// each with an accumulator that does not contain the node and with one that does.
package main

import (
	"context"
	"fmt"
	"os"
	"reflect"
	"runtime/debug"
	"sort"
	"strings"
	"sync"
	"sync/atomic"

	"github.com/specterops/dawgs/algo"
	"github.com/specterops/dawgs/cache"
	"github.com/specterops/dawgs/cardinality"
	"github.com/specterops/dawgs/container"
	"github.com/specterops/dawgs/graph"

	"verif/bfs"
	"verif/core"
	"verif/enum/graphs"
)

// ---------------------------------------------------------------------------------------------------------------
// specification of one case: graph, node ids, container

var idProfiles = map[string][]uint64{
	// node index -> external id
	"A": {1, 2, 3, 4, 5, 6},
	// spread over several 32-bit high words (roaring64 containers) and not in index order
	"B": {1<<32 | 7, 3, 1 << 63, 1<<32 | 2, 0, 1 << 40},
}

type spec struct {
	g         graphs.Graph
	profile   string
	container string // csr | adj
	ids       []uint64
	idx       map[uint64]int
	out, in   [][]int
	reachOut  []uint32 // reflexive-transitive closure as bit masks over node indices
	reachIn   []uint32
	digraph   container.DirectedGraph // built once for the history part (immutable after Build; the cache only reads it)
	// reachOnly restricts the history alphabet to ReachOf(a, d): used for the family of all labelled 5-node graphs,
	// where the full alphabet is too wide (the replay accepts any op name, so artefacts stay replayable)
	reachOnly bool
	outOnly   bool // with reachOnly: outbound queries only (the family contains every graph together with its reverse)
}

func newSpec(g graphs.Graph, profile, cont string) *spec {
	ids, ok := idProfiles[profile]
	if !ok || g.N > len(ids) {
		core.Fatalf("bad id profile %q for n=%d", profile, g.N)
	}
	s := &spec{g: g, profile: profile, container: cont, ids: ids[:g.N], idx: map[uint64]int{}}
	s.out = make([][]int, g.N)
	s.in = make([][]int, g.N)
	for i, id := range s.ids {
		s.idx[id] = i
	}
	for _, e := range g.Edges {
		s.out[e.U] = append(s.out[e.U], e.V)
		s.in[e.V] = append(s.in[e.V], e.U)
	}
	s.reachOut = closure(g.N, s.out)
	s.reachIn = closure(g.N, s.in)
	return s
}

// closure is the oracle: a plain breadth-first search from every node over adjacency lists.
func closure(n int, adj [][]int) []uint32 {
	res := make([]uint32, n)
	for s := 0; s < n; s++ {
		seen := uint32(1) << uint(s)
		queue := []int{s}
		for len(queue) > 0 {
			u := queue[0]
			queue = queue[1:]
			for _, v := range adj[u] {
				if seen&(1<<uint(v)) == 0 {
					seen |= 1 << uint(v)
					queue = append(queue, v)
				}
			}
		}
		res[s] = seen
	}
	return res
}

func (s *spec) name() string {
	return fmt.Sprintf("%s/ids=%s/%s", s.container, s.profile, s.g.String())
}

func (s *spec) build() container.DirectedGraph {
	switch s.container {
	case "csr":
		b := container.NewCSRDigraphBuilder()
		for _, id := range s.ids {
			b.AddNode(id)
		}
		for _, e := range s.g.Edges {
			b.AddEdge(s.ids[e.U], s.ids[e.V])
		}
		return b.Build()
	case "adj":
		d := container.NewAdjacencyMapGraph()
		for _, id := range s.ids {
			d.AddNode(id)
		}
		for _, e := range s.g.Edges {
			d.AddEdge(s.ids[e.U], s.ids[e.V])
		}
		return d
	}
	core.Fatalf("unknown container %q", s.container)
	return nil
}

func (s *spec) maskIDs(mask uint32) []uint64 {
	var out []uint64
	for i, id := range s.ids {
		if mask&(1<<uint(i)) != 0 {
			out = append(out, id)
		}
	}
	sort.Slice(out, func(i, j int) bool { return out[i] < out[j] })
	return out
}

func (s *spec) reach(i int, d graph.Direction) uint32 {
	if d == graph.DirectionOutbound {
		return s.reachOut[i]
	}
	return s.reachIn[i]
}

func equalIDs(a, b []uint64) bool {
	if len(a) != len(b) {
		return false
	}
	for i := range a {
		if a[i] != b[i] {
			return false
		}
	}
	return true
}

// ---------------------------------------------------------------------------------------------------------------
// static part

func staticCheck(s *spec) *core.Violation {
	var (
		ctx     = context.Background()
		digraph = s.build()
		v       *core.Violation
	)
	if p := core.Try(func() { v = staticCheckBody(ctx, s, digraph) }); p != nil {
		v = &core.Violation{Class: "panic", Summary: fmt.Sprintf("panic: %v", p)}
	}
	if v != nil {
		v.Summary = fmt.Sprintf("[static/%s] %s", s.name(), v.Summary)
		v.Artefact = map[string]any{"problem": "static/" + s.name(), "ops": []string{}}
	}
	return v
}

func staticCheckBody(ctx context.Context, s *spec, digraph container.DirectedGraph) *core.Violation {
	comps, lookup := algo.StronglyConnectedComponents(ctx, digraph)

	// partition of the node set
	seen := map[uint64]int{}
	for ci, c := range comps {
		if c.Cardinality() == 0 {
			return &core.Violation{Class: "scc-not-a-partition", Summary: fmt.Sprintf("component %d is empty", ci)}
		}
		for _, id := range c.Slice() {
			if _, isNode := s.idx[id]; !isNode {
				return &core.Violation{Class: "scc-not-a-partition", Summary: fmt.Sprintf("component %d holds %d which is not a node", ci, id)}
			}
			if prev, dup := seen[id]; dup {
				return &core.Violation{Class: "scc-not-a-partition", Summary: fmt.Sprintf("node %d is in components %d and %d", id, prev, ci)}
			}
			seen[id] = ci
			if got, ok := lookup[id]; !ok || got != uint64(ci) {
				return &core.Violation{Class: "scc-not-a-partition", Summary: fmt.Sprintf("node %d is a member of component %d but the lookup says %d (present=%v)", id, ci, got, ok)}
			}
		}
	}
	for _, id := range s.ids {
		if _, ok := seen[id]; !ok {
			return &core.Violation{Class: "scc-not-a-partition", Summary: fmt.Sprintf("node %d is in no component", id)}
		}
	}
	if len(lookup) != len(s.ids) {
		return &core.Violation{Class: "scc-not-a-partition", Summary: fmt.Sprintf("lookup has %d entries for %d nodes", len(lookup), len(s.ids))}
	}

	// same component <=> mutually reachable
	for i, a := range s.ids {
		for j, b := range s.ids {
			mutual := s.reachOut[i]&(1<<uint(j)) != 0 && s.reachOut[j]&(1<<uint(i)) != 0
			if same := seen[a] == seen[b]; same != mutual {
				return &core.Violation{Class: "scc-not-mutual-reachability", Summary: fmt.Sprintf("nodes %d and %d: same component = %v, naive mutual reachability = %v", a, b, same, mutual)}
			}
		}
	}

	// component graph: one vertex per component, acyclic
	cg := algo.NewComponentGraph(ctx, digraph)
	cd := cg.Digraph()
	if cd.NumNodes() != uint64(len(comps)) {
		return &core.Violation{Class: "component-graph-vertices", Summary: fmt.Sprintf("component digraph has %d vertices for %d components", cd.NumNodes(), len(comps))}
	}
	for _, id := range s.ids {
		c, ok := cg.ContainingComponent(id)
		if !ok || !cg.ComponentMembers(c).Contains(id) {
			return &core.Violation{Class: "component-graph-vertices", Summary: fmt.Sprintf("node %d: ContainingComponent = %d (found=%v) does not list it as a member", id, c, ok)}
		}
	}
	var (
		state = map[uint64]int{} // 1 = on the DFS path, 2 = done
		cycle []uint64
		visit func(c uint64) bool
	)
	visit = func(c uint64) bool {
		state[c] = 1
		for _, nx := range container.AdjacentNodes(cd, c, graph.DirectionOutbound) {
			if state[nx] == 1 || (state[nx] == 0 && !visit(nx)) {
				cycle = append(cycle, c)
				return false
			}
		}
		state[c] = 2
		return true
	}
	for c := uint64(0); c < uint64(len(comps)); c++ {
		if state[c] == 0 && !visit(c) {
			return &core.Violation{Class: "component-graph-cyclic", Summary: fmt.Sprintf("component digraph has a cycle through components %v", cycle)}
		}
	}
	return nil
}

// ---------------------------------------------------------------------------------------------------------------
// history part

type opKind int

const (
	kReachOf opKind = iota
	kReachSlice
	kOrReach
	kXorReach
	kCanReach
)

type op struct {
	kind opKind
	a, b int
	dir  graph.Direction
}

func dirName(d graph.Direction) string {
	if d == graph.DirectionOutbound {
		return "out"
	}
	return "in"
}

func (s *spec) opName(o op) string {
	switch o.kind {
	case kReachOf:
		return fmt.Sprintf("ReachOf(%d,%s)", s.ids[o.a], dirName(o.dir))
	case kReachSlice:
		return fmt.Sprintf("ReachSliceOf(%d,%s)", s.ids[o.a], dirName(o.dir))
	case kOrReach:
		return fmt.Sprintf("OrReach(%d,%s)", s.ids[o.a], dirName(o.dir))
	case kXorReach:
		return fmt.Sprintf("XorReach(%d,%s)", s.ids[o.a], dirName(o.dir))
	}
	return fmt.Sprintf("CanReachAll(%s)", dirName(o.dir))
}

// alphabet lists the operations simplest first. Every reach operation is exactly one API call. CanReachAll(d) asks
// CanReach(a,b,d) for every ordered pair in one transition: CanReach never touches the caches (Apply verifies that the
// canonical state is unchanged by it, and fails the run as a machinery error otherwise), so all interleavings of
// individual CanReach calls inside a state are equivalent and one fixed order covers them.
func (s *spec) alphabet() []op {
	var ops []op
	dirs := []graph.Direction{graph.DirectionOutbound, graph.DirectionInbound}
	kinds := []opKind{kReachOf, kReachSlice, kOrReach, kXorReach}
	if s.reachOnly {
		kinds = []opKind{kReachOf}
	}
	if s.reachOnly && s.outOnly {
		dirs = dirs[:1]
	}
	for _, k := range kinds {
		for _, d := range dirs {
			for a := 0; a < s.g.N; a++ {
				ops = append(ops, op{kind: k, a: a, dir: d})
			}
		}
	}
	if s.reachOnly {
		return ops
	}
	for _, d := range dirs {
		ops = append(ops, op{kind: kCanReach, dir: d})
	}
	return ops
}

type inst struct {
	s     *spec
	cap   int
	ops   []op
	rc    *algo.ReachabilityCache
	steps int
	// last answer, both sides, for --replay
	lastGot, lastWant string
}

func newInst(s *spec, capacity int, ops []op) *inst {
	d := s.digraph
	if d == nil {
		d = s.build()
	}
	return &inst{s: s, cap: capacity, ops: ops, rc: algo.NewReachabilityCache(context.Background(), d, capacity)}
}

// answer runs one query on the real cache and returns (got, want) rendered the same way.
func (in *inst) answer(o op) (got, want string) {
	s := in.s
	switch o.kind {
	case kCanReach:
		var gots, wants []string
		before := in.Canon()
		for a := range s.ids {
			for b := range s.ids {
				g := in.rc.CanReach(s.ids[a], s.ids[b], o.dir)
				w := s.reach(a, o.dir)&(1<<uint(b)) != 0
				gots = append(gots, fmt.Sprintf("%d~>%d:%v", s.ids[a], s.ids[b], g))
				wants = append(wants, fmt.Sprintf("%d~>%d:%v", s.ids[a], s.ids[b], w))
			}
		}
		if in.Canon() != before {
			core.Fatalf("CanReach changed the cache state (%s -> %s): the CanReachAll reduction is unsound for this tree, split it into single calls", before, in.Canon())
		}
		return strings.Join(gots, " "), strings.Join(wants, " ")
	case kReachOf:
		g := in.rc.ReachOfComponentContainingMember(s.ids[o.a], o.dir).Slice()
		return fmt.Sprint(g), fmt.Sprint(s.maskIDs(s.reach(o.a, o.dir)))
	case kReachSlice:
		union := cardinality.NewBitmap64()
		for _, part := range in.rc.ReachSliceOfComponentContainingMember(s.ids[o.a], o.dir) {
			union.Or(part.Clone())
		}
		return fmt.Sprint(union.Slice()), fmt.Sprint(s.maskIDs(s.reach(o.a, o.dir)))
	case kOrReach, kXorReach:
		var (
			self   = uint32(1) << uint(o.a)
			all    = uint32(1)<<uint(s.g.N) - 1
			others = s.reach(o.a, o.dir) &^ self
		)
		if o.kind == kOrReach {
			// D = the lowest-index node other than a (empty for a one-node graph); expects D | (reach \ {a})
			d := uint32(0)
			for i := 0; i < s.g.N; i++ {
				if i != o.a {
					d = 1 << uint(i)
					break
				}
			}
			dup := cardinality.NewBitmap64With(s.maskIDs(d)...)
			in.rc.OrReach(s.ids[o.a], o.dir, dup)
			// and an accumulator that already holds a (as when folding over several nodes): "the node itself is removed
			// from the result", so a is gone afterwards
			dup2 := cardinality.NewBitmap64With(s.maskIDs(d | self)...)
			in.rc.OrReach(s.ids[o.a], o.dir, dup2)
			return fmt.Sprint(dup.Slice(), dup2.Slice()), fmt.Sprint(s.maskIDs(d|others), s.maskIDs((d|self|others)&^self))
		}
		// D = every node except a; expects D ^ (reach \ {a}) = the nodes a cannot reach
		d := all &^ self
		dup := cardinality.NewBitmap64With(s.maskIDs(d)...)
		in.rc.XorReach(s.ids[o.a], o.dir, dup)
		// and an accumulator that already holds a: "the node itself is removed from the reach before the XOR", so a stays
		dup2 := cardinality.NewBitmap64With(s.maskIDs(self)...)
		in.rc.XorReach(s.ids[o.a], o.dir, dup2)
		return fmt.Sprint(dup.Slice(), dup2.Slice()), fmt.Sprint(s.maskIDs(d^others), s.maskIDs(self^others))
	}
	core.Fatalf("bad op")
	return
}

var classByKind = map[opKind]string{
	kReachOf:    "reach-set-wrong",
	kReachSlice: "reach-slice-wrong",
	kOrReach:    "or-reach-wrong",
	kXorReach:   "xor-reach-wrong",
	kCanReach:   "can-reach-wrong",
}

func (in *inst) Apply(opIdx int) *core.Violation {
	o := in.ops[opIdx]
	in.steps++
	got, want := in.answer(o)
	in.lastGot, in.lastWant = got, want
	if got == want {
		return nil
	}
	// Classify: is the same question answered correctly by a fresh cache? Then the answer depends on the history.
	class := classByKind[o.kind]
	if in.steps > 1 && o.kind != kCanReach {
		fresh := newInst(in.s, in.cap, in.ops)
		if fg, fw := fresh.answer(o); fg == fw {
			class = "reach-depends-on-query-history"
			return &core.Violation{Class: class, Summary: fmt.Sprintf("%s = %s, naive BFS says %s (a fresh cache answers %s)", in.s.opName(o), got, want, fg)}
		}
	}
	return &core.Violation{Class: class, Summary: fmt.Sprintf("%s = %s, naive BFS says %s", in.s.opName(o), got, want)}
}

func (in *inst) Canon() string {
	inbound, outbound := in.rc.VerifCaches()
	var (
		sb      strings.Builder
		aliases = map[uintptr]int{}
	)
	for _, c := range []cache.Cache[uint64, cardinality.Duplex[uint64]]{outbound, inbound} {
		sv, ok := c.(*cache.Sieve[uint64, cardinality.Duplex[uint64]])
		if !ok {
			core.Fatalf("reach cache is a %T, the canonical state knows only *cache.Sieve", c)
		}
		st := sv.VerifState()
		fmt.Fprintf(&sb, "{n=%d hand=%d agree=%v", st.Size, st.Hand, st.QueueStoreAgree)
		for i, k := range st.Queue {
			var (
				bm    = st.Store[k]
				alias = -1
				bits  any
			)
			if bm != nil {
				bits = bm.Slice()
				if p, ok := identity(bm); ok {
					if _, ok := aliases[p]; !ok {
						aliases[p] = len(aliases)
					}
					alias = aliases[p]
				}
			}
			fmt.Fprintf(&sb, " %d:%v:%v@%d", k, st.Visited[i], bits, alias)
		}
		sb.WriteString("}")
	}
	return sb.String()
}

// identity is the address of the roaring bitmap behind a cardinality.Duplex (cardinality.bitmap64 is a struct with one
// pointer field), so that two cache entries sharing one mutable bitmap are told apart from two equal copies.
func identity(d cardinality.Duplex[uint64]) (uintptr, bool) {
	rv := reflect.ValueOf(d)
	for rv.Kind() == reflect.Interface {
		rv = rv.Elem()
	}
	if rv.Kind() == reflect.Pointer {
		return rv.Pointer(), true
	}
	if rv.Kind() == reflect.Struct {
		for i := 0; i < rv.NumField(); i++ {
			if f := rv.Field(i); f.Kind() == reflect.Pointer {
				return f.Pointer(), true
			}
		}
	}
	return 0, false
}

func histProblem(s *spec, capacity, depth int) *bfs.Problem {
	ops := s.alphabet()
	return &bfs.Problem{
		Name:   fmt.Sprintf("hist/cap=%d/%s", capacity, s.name()),
		NumOps: len(ops),
		OpName: func(i int) string { return s.opName(ops[i]) },
		New:    func() bfs.Instance { return newInst(s, capacity, ops) },
		Depth:  depth,
	}
}

// ---------------------------------------------------------------------------------------------------------------
// bounds

// family is one enumerated set of graphs together with the id profiles it is run under and (for the history part) the
// depth bound of the query-history search.
type family struct {
	Graphs   graphs.Options
	Profiles []string
	Depth    int
	// ReachOnly: the history alphabet is ReachOf(a, d) only; OutOnly: d = outbound only; MinCap/MaxCap: capacities
	ReachOnly, OutOnly bool
	MinCap, MaxCap     int
}

type bounds struct {
	static  []family
	history []family
}

func tierBounds(t core.Tier) bounds {
	var (
		ab = []string{"A", "B"}
		a  = []string{"A"}
	)
	if t == core.Quick {
		return bounds{
			static: []family{
				{Graphs: graphs.Options{MaxNodes: 3, MaxEdges: 9, SelfLoops: true}, Profiles: ab},             // every labelled digraph, loops included
				{Graphs: graphs.Options{MinNodes: 4, MaxNodes: 4, MaxEdges: 12}, Profiles: ab},                // every labelled loop-free digraph
				{Graphs: graphs.Options{MinNodes: 5, MaxNodes: 5, MaxEdges: 7, IsoReduce: true}, Profiles: a}, // one per isomorphism class
			},
			history: []family{
				{Graphs: graphs.Options{MaxNodes: 3, MaxEdges: 6}, Profiles: ab, Depth: 4},
				{Graphs: graphs.Options{MinNodes: 4, MaxNodes: 4, MaxEdges: 12, IsoReduce: true}, Profiles: ab, Depth: 4},
				{Graphs: graphs.Options{MinNodes: 5, MaxNodes: 5, MaxEdges: 4, IsoReduce: true}, Profiles: a, Depth: 3},
				// every labelled loop-free 5-node digraph with <= 5 edges (the depth-first order of componentReachDFS follows the
				// numeric order of ids, so one representative per isomorphism class does not cover it): reach queries, two deep
				{Graphs: graphs.Options{MinNodes: 5, MaxNodes: 5, MaxEdges: 5}, Profiles: a, Depth: 2, ReachOnly: true},
				// every labelled 6-node DAG with <= 7 edges whose ids are in a topological order, capacities 2 and 3 (the smallest
				// setting in which a join component's entry is evicted between its two visits), both directions (inbound queries
				// on such a graph are outbound queries on its reverse with the id order reversed), two deep
				{Graphs: graphs.Options{MinNodes: 6, MaxNodes: 6, MaxEdges: 7, Forward: true}, Profiles: a, Depth: 2, ReachOnly: true, MinCap: 2, MaxCap: 3},
			},
		}
	}
	return bounds{
		static: []family{
			{Graphs: graphs.Options{MaxNodes: 4, MaxEdges: 16, SelfLoops: true}, Profiles: ab},
			{Graphs: graphs.Options{MinNodes: 5, MaxNodes: 5, MaxEdges: 20, IsoReduce: true}, Profiles: ab},
			{Graphs: graphs.Options{MinNodes: 5, MaxNodes: 5, MaxEdges: 6}, Profiles: a},
		},
		history: []family{
			{Graphs: graphs.Options{MaxNodes: 3, MaxEdges: 6}, Profiles: ab, Depth: 6},
			{Graphs: graphs.Options{MinNodes: 4, MaxNodes: 4, MaxEdges: 12}, Profiles: ab, Depth: 3},
			{Graphs: graphs.Options{MinNodes: 4, MaxNodes: 4, MaxEdges: 12, IsoReduce: true}, Profiles: ab, Depth: 5},
			{Graphs: graphs.Options{MinNodes: 5, MaxNodes: 5, MaxEdges: 7, IsoReduce: true}, Profiles: a, Depth: 3},
			{Graphs: graphs.Options{MinNodes: 5, MaxNodes: 5, MaxEdges: 5, IsoReduce: true}, Profiles: a, Depth: 4},
			{Graphs: graphs.Options{MinNodes: 5, MaxNodes: 5, MaxEdges: 6}, Profiles: a, Depth: 2, ReachOnly: true},
			// every labelled loop-free 6-node digraph with <= 6 edges, capacities 2 and 3 (the smallest setting in which an entry
			// is evicted between the two visits of a join component): outbound reach queries, two deep
			{Graphs: graphs.Options{MinNodes: 6, MaxNodes: 6, MaxEdges: 6}, Profiles: a, Depth: 2, ReachOnly: true, OutOnly: true, MinCap: 2, MaxCap: 3},
		},
	}
}

func capacities(n int) []int {
	// a cache of capacity >= the number of components never evicts, and there are at most n components, so
	// {1..n} stands for every capacity from 1 upward
	var c []int
	for k := 1; k <= n; k++ {
		c = append(c, k)
	}
	if n == 0 {
		c = []int{1}
	}
	return c
}

// ---------------------------------------------------------------------------------------------------------------

func parseProblem(name string) (kind string, capacity int, s *spec) {
	// "static/<container>/ids=<profile>/<graph>" or "hist/cap=<k>/<container>/ids=<profile>/<graph>"
	parts := strings.Split(name, "/")
	if len(parts) > 0 && parts[0] == "hist" && len(parts) == 5 {
		if _, err := fmt.Sscanf(parts[1], "cap=%d", &capacity); err != nil {
			core.Fatalf("replay: cannot parse problem %q", name)
		}
		parts = append([]string{"hist"}, parts[2:]...)
	}
	if len(parts) != 4 || (parts[0] != "hist" && parts[0] != "static") {
		core.Fatalf("replay: cannot parse problem %q", name)
	}
	g, err := graphs.Parse(parts[3])
	if err != nil {
		core.Fatalf("replay: %v", err)
	}
	return parts[0], capacity, newSpec(g, strings.TrimPrefix(parts[2], "ids="), parts[1])
}

func replay(run *core.Run) {
	var art struct {
		Problem string   `json:"problem"`
		Ops     []string `json:"ops"`
	}
	core.LoadArtefact(run.Replay, &art)
	kind, capacity, s := parseProblem(art.Problem)
	fmt.Printf("replay: %s  ids=%v\n", art.Problem, s.ids)
	if kind == "static" {
		if v := staticCheck(s); v != nil {
			run.Report(*v)
		} else {
			fmt.Println("replay: no violation")
		}
		run.Finish()
	}
	p := histProblem(s, capacity, len(art.Ops))
	// print both sides of the oracle for every step
	in := p.New().(*inst)
	idx := map[string]int{}
	for i := 0; i < p.NumOps; i++ {
		idx[p.OpName(i)] = i
	}
	for _, n := range art.Ops {
		i, ok := idx[n]
		if !ok {
			core.Fatalf("replay: unknown op %q", n)
		}
		var v *core.Violation
		if pv := core.Try(func() { v = in.Apply(i) }); pv != nil {
			fmt.Printf("  %-28s PANIC %v\n", n, pv)
			break
		}
		fmt.Printf("  %-28s impl=%s  naive=%s  caches=%s\n", n, in.lastGot, in.lastWant, in.Canon())
		if v != nil {
			break
		}
	}
	if v := bfs.Replay(p, art.Ops); v != nil {
		v.Artefact = art
		run.Report(*v)
	} else {
		fmt.Println("replay: no violation")
	}
	run.Finish()
}

type job struct {
	s     *spec
	cap   int
	depth int
}

func main() {
	run := core.Start("C15", "model_checking")
	debug.SetGCPercent(400)
	debug.SetMemoryLimit(3 << 30)
	if run.Replay != "" {
		replay(run)
		return
	}
	b := tierBounds(run.Tier)
	if env := os.Getenv("C15_FAMILY"); env != "" { // measurement aid only: "minNodes,maxNodes,maxEdges,iso,depth,profiles"
		var (
			f    family
			iso  int
			prof string
		)
		if _, err := fmt.Sscanf(env, "%d,%d,%d,%d,%d,%s", &f.Graphs.MinNodes, &f.Graphs.MaxNodes, &f.Graphs.MaxEdges, &iso, &f.Depth, &prof); err != nil {
			core.Fatalf("C15_FAMILY: %v", err)
		}
		f.Graphs.IsoReduce = iso == 1
		f.Profiles = strings.Split(prof, "+")
		b = bounds{history: []family{f}}
		run.Capped("C15_FAMILY measurement run: a single history family, no static part")
	}

	var (
		wg           sync.WaitGroup
		sem          = make(chan struct{}, 16)
		staticFailed atomic.Bool
	)

	// static part. Of each violation class the case that comes first in enumeration order (the simplest) is reported,
	// whatever the goroutine interleaving.
	type firstCase struct {
		seq   int
		v     core.Violation
		count int64
	}
	var (
		firstMu    sync.Mutex
		first      = map[string]*firstCase{}
		enumerated int
	)
	keep := func(seq int, v core.Violation) {
		firstMu.Lock()
		defer firstMu.Unlock()
		if cur, ok := first[v.Class]; !ok {
			first[v.Class] = &firstCase{seq: seq, v: v, count: 1}
		} else {
			cur.count++
			if seq < cur.seq {
				cur.seq, cur.v = seq, v
			}
		}
	}
	for _, fam := range b.static {
		var batch []graphs.Graph
		flush := func() {
			if len(batch) == 0 {
				return
			}
			work := batch
			base := enumerated - len(batch)
			batch = nil
			wg.Add(1)
			sem <- struct{}{}
			go func() {
				defer wg.Done()
				defer func() { <-sem }()
				for k, g := range work {
					for pi, prof := range fam.Profiles {
						for ci, cont := range []string{"csr", "adj"} {
							seq := (base+k)*16 + pi*2 + ci
							run.Add("static_cases", 1)
							if v := staticCheck(newSpec(g, prof, cont)); v != nil {
								staticFailed.Store(true)
								keep(seq, *v)
							}
						}
					}
				}
			}()
		}
		graphs.Each(fam.Graphs, func(_ int, g graphs.Graph) bool {
			if run.TimeUp() {
				run.Capped("deadline in the static part")
				return false
			}
			batch = append(batch, g)
			enumerated++
			if len(batch) == 512 {
				flush()
			}
			return true
		})
		flush()
	}
	wg.Wait()
	for _, fc := range first {
		run.Report(fc.v)
		run.Add("static_violating_cases", fc.count)
	}
	if staticFailed.Load() {
		// A wrong decomposition can make the component digraph cyclic, on which the depth-first reach computation need
		// not terminate; the static families contain every graph of the history families, so nothing is hidden.
		run.Capped("history part skipped: the static part (SCC decomposition / component graph) already failed")
		run.Set("states", int64(0))
		run.Set("transitions", int64(0))
		run.Set("traces_validated_against_impl", int64(0))
		run.Finish()
	}

	// history part: problems are generated and dispatched one by one (nothing is materialised up front)
	var (
		maxDepth int64
		mu       sync.Mutex
		jobNo    int
		stop     bool
	)
	dispatch := func(j job) {
		jobNo++
		sampled := jobNo%173 == 100 // a spread of samples; core keeps the first 12
		wg.Add(1)
		sem <- struct{}{}
		go func() {
			defer wg.Done()
			defer func() { <-sem }()
			p := histProblem(j.s, j.cap, j.depth)
			st := bfs.Explore(run, p)
			run.Add("states", st.States)
			run.Add("transitions", st.Transitions)
			run.Add("history_problems", 1)
			mu.Lock()
			if int64(st.MaxDepth) > maxDepth {
				maxDepth = int64(st.MaxDepth)
			}
			mu.Unlock()
			if sampled {
				run.Sample(map[string]any{"problem": p.Name, "depth": j.depth, "alphabet_size": p.NumOps, "states": st.States, "transitions": st.Transitions})
			}
		}()
	}
	for _, fam := range b.history {
		graphs.Each(fam.Graphs, func(_ int, g graphs.Graph) bool {
			for _, prof := range fam.Profiles {
				if run.TimeUp() {
					run.Capped("deadline before all history problems were explored")
					stop = true
					return false
				}
				s := newSpec(g, prof, "csr")
				s.reachOnly, s.outOnly = fam.ReachOnly, fam.OutOnly
				s.digraph = s.build()
				for _, c := range capacities(g.N) {
					if fam.ReachOnly && c > 3 || fam.MaxCap > 0 && c > fam.MaxCap {
						break // the wide labelled families: capacities up to 3 (the small families cover every capacity)
					}
					if c < fam.MinCap {
						continue
					}
					dispatch(job{s, c, fam.Depth})
				}
			}
			return true
		})
		wg.Wait() // families are ordered simplest first: a smaller family reports before a larger one starts
		if stop {
			break
		}
	}
	wg.Wait()
	run.Set("max_depth_reached", maxDepth)
	run.Set("traces_validated_against_impl", run.Get("transitions"))
	run.Set("bounds", map[string]any{"static": b.static, "history": b.history, "capacities": "1..n", "directions": "out,in"})
	run.Assume("every transition is executed on a real ReachabilityCache (no separate model to conform): traces_validated_against_impl = transitions")
	run.Assume("a SIEVE cache of capacity >= number of components never evicts, so capacities 1..n stand for every capacity from 1 upward")
	run.Assume("the oracle is a stateless naive BFS over the edge list; reachability is reflexive; OrReach/XorReach are given sets that do not contain the queried node")
	run.Finish()
}
