package main

// Copy oracle: (1) structural equality, (2) disjointness of every mutable part (pointer targets, slice backing arrays,
// maps) found by reflection, (3) every in-place change of either side leaves the other side's fingerprint unchanged.

import (
	"fmt"
	"os"
	"reflect"
	"sort"
	"strings"
	"unsafe"

	"github.com/specterops/dawgs/cypher/models/cypher"

	"verif/core"
)

func isOpaque(t reflect.Type) bool {
	switch t.Kind() {
	case reflect.Interface:
		return t.NumMethod() > 0 // error, graph.Kind, ...: immutable handles
	case reflect.Struct:
		return t.PkgPath() != cypherPkg // time.Time and other foreign payload structs
	case reflect.Func, reflect.Chan, reflect.UnsafePointer:
		return true
	}
	return false
}

func readable(v reflect.Value) reflect.Value {
	if v.CanInterface() || !v.CanAddr() {
		return v
	}
	return reflect.NewAt(v.Type(), unsafe.Pointer(v.UnsafeAddr())).Elem()
}

// fingerprint is a canonical rendering of everything reachable from v: dynamic types, nil versus empty containers,
// unexported fields, scalar values. Two values are structurally equal iff their fingerprints are equal.
func fingerprint(v any) string {
	var sb strings.Builder
	fpRec(&sb, reflect.ValueOf(v), 0)
	return sb.String()
}

func fpRec(sb *strings.Builder, v reflect.Value, depth int) {
	if !v.IsValid() {
		sb.WriteString("<nil>")
		return
	}
	if depth > 200 {
		sb.WriteString("<deep>")
		return
	}
	t := v.Type()
	if isOpaque(t) {
		r := readable(v)
		if r.CanInterface() {
			fmt.Fprintf(sb, "%s<%v>", t, r.Interface())
		} else {
			fmt.Fprintf(sb, "%s<?>", t)
		}
		return
	}
	switch v.Kind() {
	case reflect.Ptr:
		if v.IsNil() {
			fmt.Fprintf(sb, "nil(%s)", t)
			return
		}
		sb.WriteString("&")
		fpRec(sb, v.Elem(), depth+1)
	case reflect.Interface:
		if v.IsNil() {
			sb.WriteString("nil(iface)")
			return
		}
		sb.WriteString("i:")
		fpRec(sb, v.Elem(), depth+1)
	case reflect.Slice:
		if v.IsNil() {
			fmt.Fprintf(sb, "nil(%s)", t)
			return
		}
		fmt.Fprintf(sb, "%s[", t)
		for i := 0; i < v.Len(); i++ {
			fpRec(sb, v.Index(i), depth+1)
			sb.WriteString(",")
		}
		sb.WriteString("]")
	case reflect.Map:
		if v.IsNil() {
			fmt.Fprintf(sb, "nil(%s)", t)
			return
		}
		keys := v.MapKeys()
		sort.Slice(keys, func(i, j int) bool { return fmt.Sprint(keys[i]) < fmt.Sprint(keys[j]) })
		fmt.Fprintf(sb, "%s{", t)
		for _, k := range keys {
			fmt.Fprintf(sb, "%v:", k)
			fpRec(sb, v.MapIndex(k), depth+1)
			sb.WriteString(",")
		}
		sb.WriteString("}")
	case reflect.Struct:
		fmt.Fprintf(sb, "%s{", t.Name())
		for i := 0; i < v.NumField(); i++ {
			fmt.Fprintf(sb, "%s=", t.Field(i).Name)
			fpRec(sb, v.Field(i), depth+1)
			sb.WriteString(";")
		}
		sb.WriteString("}")
	case reflect.String:
		fmt.Fprintf(sb, "%s(%q)", t, v.String())
	case reflect.Bool:
		fmt.Fprintf(sb, "%s(%v)", t, v.Bool())
	case reflect.Int, reflect.Int8, reflect.Int16, reflect.Int32, reflect.Int64:
		fmt.Fprintf(sb, "%s(%d)", t, v.Int())
	case reflect.Uint, reflect.Uint8, reflect.Uint16, reflect.Uint32, reflect.Uint64, reflect.Uintptr:
		fmt.Fprintf(sb, "%s(%d)", t, v.Uint())
	case reflect.Float32, reflect.Float64:
		fmt.Fprintf(sb, "%s(%v)", t, v.Float())
	default:
		fmt.Fprintf(sb, "%s<?>", t)
	}
}

// firstDiff names the first path at which two fingerprints' structures differ (for the report only).
func firstDiff(a, b string) string {
	n := len(a)
	if len(b) < n {
		n = len(b)
	}
	i := 0
	for i < n && a[i] == b[i] {
		i++
	}
	lo := i - 60
	if lo < 0 {
		lo = 0
	}
	cut := func(s string) string {
		hi := i + 60
		if hi > len(s) {
			hi = len(s)
		}
		if lo > len(s) {
			return ""
		}
		return s[lo:hi]
	}
	return fmt.Sprintf("original …%s… / copy …%s…", cut(a), cut(b))
}

// part is one mutable part: the target of a pointer, the backing array of a slice, a map.
type part struct {
	addr uintptr
	path string
	cat  string // "model" | "errors" (internal error list) | "payload" (inside a Literal/Parameter `any` value)
}

// slot is one place whose content can be changed in place.
type slot struct {
	path  string
	cat   string
	apply func() (undo func())
}

type scan struct {
	parts       []part
	slots       []slot
	payloadRefs int // reference-typed user payload values met (shared by design, see Assume)
}

var strictPayload = os.Getenv("VERIF_C11_PAYLOAD") == "strict"

func scanValue(root any) *scan {
	s := &scan{}
	s.rec(reflect.ValueOf(root), "", "model", 0)
	return s
}

func (s *scan) rec(v reflect.Value, path, cat string, depth int) {
	if !v.IsValid() || depth > 200 {
		return
	}
	t := v.Type()
	settable := v.CanAddr()
	if settable && !v.CanSet() {
		v = reflect.NewAt(t, unsafe.Pointer(v.UnsafeAddr())).Elem()
	}
	if isOpaque(t) {
		if settable && (t.Kind() == reflect.Interface) && !v.IsNil() {
			s.addNilSlot(v, path, cat)
		}
		return
	}
	switch v.Kind() {
	case reflect.Ptr:
		if v.IsNil() {
			return
		}
		if settable {
			s.addNilSlot(v, path, cat)
		}
		s.parts = append(s.parts, part{v.Pointer(), path + "->", cat})
		s.rec(v.Elem(), path+"->", cat, depth+1)
	case reflect.Interface:
		if v.IsNil() {
			return
		}
		if settable {
			s.addNilSlot(v, path, cat)
		}
		s.rec(v.Elem(), path, cat, depth+1)
	case reflect.Slice:
		if v.IsNil() {
			return
		}
		if settable {
			s.addNilSlot(v, path, cat)
		}
		if v.Cap() > 0 {
			s.parts = append(s.parts, part{v.Pointer(), path + "[]", cat})
		}
		for i := 0; i < v.Len(); i++ {
			s.rec(v.Index(i), fmt.Sprintf("%s[%d]", path, i), cat, depth+1)
		}
	case reflect.Map:
		if v.IsNil() {
			return
		}
		if settable {
			s.addNilSlot(v, path, cat)
		}
		s.parts = append(s.parts, part{v.Pointer(), path + "{}", cat})
		mv := v
		keys := v.MapKeys()
		sort.Slice(keys, func(i, j int) bool { return fmt.Sprint(keys[i]) < fmt.Sprint(keys[j]) })
		for _, k := range keys {
			k := k
			old := mv.MapIndex(k)
			s.slots = append(s.slots, slot{path: fmt.Sprintf("%s{delete %v}", path, k), cat: cat, apply: func() func() {
				mv.SetMapIndex(k, reflect.Value{})
				return func() { mv.SetMapIndex(k, old) }
			}})
			s.rec(old, fmt.Sprintf("%s{%v}", path, k), cat, depth+1)
		}
		if mv.Type().Key().Kind() == reflect.String {
			nk := reflect.ValueOf("~verif-added~").Convert(mv.Type().Key())
			s.slots = append(s.slots, slot{path: path + "{add key}", cat: cat, apply: func() func() {
				mv.SetMapIndex(nk, reflect.Zero(mv.Type().Elem()))
				return func() { mv.SetMapIndex(nk, reflect.Value{}) }
			}})
		}
	case reflect.Struct:
		for i := 0; i < v.NumField(); i++ {
			sf := t.Field(i)
			c := cat
			ft := sf.Type
			if ft.Kind() == reflect.Slice && ft.Elem() == errorType && !sf.IsExported() {
				c = "errors"
			} else if classify(ft) == fPayload {
				// user payload behind a plain `any` (Literal.Value, Parameter.Value): an opaque handle like an error
				// value; the slot itself belongs to the model, what it refers to does not (VERIF_C11_PAYLOAD=strict
				// makes the referenced value part of the model)
				if !strictPayload {
					fvv := v.Field(i)
					if fvv.CanAddr() {
						fvv = reflect.NewAt(fvv.Type(), unsafe.Pointer(fvv.UnsafeAddr())).Elem()
						if !fvv.IsNil() {
							s.addNilSlot(fvv, path+"."+sf.Name, cat)
							if k := fvv.Elem().Kind(); k == reflect.Slice || k == reflect.Map || k == reflect.Ptr {
								s.payloadRefs++
							}
						}
					}
					continue
				}
				c = "payload"
			}
			s.rec(v.Field(i), path+"."+sf.Name, c, depth+1)
		}
	case reflect.String, reflect.Bool, reflect.Int, reflect.Int8, reflect.Int16, reflect.Int32, reflect.Int64,
		reflect.Uint, reflect.Uint8, reflect.Uint16, reflect.Uint32, reflect.Uint64, reflect.Float32, reflect.Float64:
		if !settable {
			return
		}
		vv := v
		s.slots = append(s.slots, slot{path: path, cat: cat, apply: func() func() {
			old := reflect.New(vv.Type()).Elem()
			old.Set(vv)
			switch vv.Kind() {
			case reflect.String:
				vv.SetString(vv.String() + "~")
			case reflect.Bool:
				vv.SetBool(!vv.Bool())
			case reflect.Int, reflect.Int8, reflect.Int16, reflect.Int32, reflect.Int64:
				vv.SetInt(vv.Int() ^ 1)
			case reflect.Uint, reflect.Uint8, reflect.Uint16, reflect.Uint32, reflect.Uint64:
				vv.SetUint(vv.Uint() ^ 1)
			default:
				vv.SetFloat(vv.Float() + 1)
			}
			return func() { vv.Set(old) }
		}})
	}
}

func (s *scan) addNilSlot(v reflect.Value, path, cat string) {
	vv := v
	s.slots = append(s.slots, slot{path: path + "=nil", cat: cat, apply: func() func() {
		old := reflect.New(vv.Type()).Elem()
		old.Set(vv)
		vv.Set(reflect.Zero(vv.Type()))
		return func() { vv.Set(old) }
	}})
}

func aliasClass(cat string) string {
	switch cat {
	case "errors":
		return "copy-aliases-error-list"
	case "payload":
		return "copy-aliases-payload-value"
	}
	return "copy-shares-mutable-part"
}

type copyResult struct {
	parts, slots, payloadRefs int
	panicked                  any
}

// checkCopy runs the whole copy oracle on one model; report is called for every violation found.
func checkCopy(model any, wellFormed bool, describe string, artefact any, report func(core.Violation)) copyResult {
	var res copyResult
	var cp any
	res.panicked = core.Try(func() { cp = cypher.Copy[any](model) })
	if res.panicked != nil {
		if !wellFormed {
			return res // a malformed model (nil branch) may be refused; refusing is not aliasing
		}
		msg := fmt.Sprint(res.panicked)
		class := "copy-panics"
		if strings.Contains(msg, "unable to copy type") {
			class = "copy-unsupported-node-type"
		}
		report(core.Violation{Class: class, Summary: fmt.Sprintf("cypher.Copy panicked on a well-formed model %s: %s", describe, msg), Artefact: artefact})
		return res
	}
	if !wellFormed {
		return res
	}
	fo, fc := fingerprint(model), fingerprint(cp)
	if fo != fc {
		report(core.Violation{Class: "copy-not-structurally-equal", Summary: fmt.Sprintf("Copy(%s) differs from the original: %s", describe, firstDiff(fo, fc)), Artefact: artefact})
		return res
	}
	so, sc := scanValue(model), scanValue(cp)
	res.parts, res.slots, res.payloadRefs = len(so.parts), len(so.slots)+len(sc.slots), so.payloadRefs
	seen := map[uintptr]part{}
	for _, p := range so.parts {
		seen[p.addr] = p
	}
	for _, p := range sc.parts {
		if o, shared := seen[p.addr]; shared {
			report(core.Violation{Class: aliasClass(p.cat), Summary: fmt.Sprintf("Copy(%s): the copy's %s and the original's %s are the same memory (0x%x)", describe, p.path, o.path, p.addr), Artefact: artefact})
		}
	}
	// every in-place change of the copy must be invisible in the original, and vice versa
	mutate := func(side string, slots []slot, self any, other any, selfFP, otherFP string) {
		for _, sl := range slots {
			undo := sl.apply()
			after := fingerprint(other)
			undo()
			if after != otherFP {
				report(core.Violation{Class: aliasClass(sl.cat), Summary: fmt.Sprintf("Copy(%s): changing %s%s changed the other side: %s", describe, side, sl.path, firstDiff(otherFP, after)), Artefact: artefact})
			}
		}
		if fingerprint(self) != selfFP {
			core.Fatalf("c11: mutation of %s was not undone (%s)", describe, side)
		}
	}
	mutate("copy", sc.slots, cp, model, fc, fo)
	mutate("original", so.slots, model, cp, fo, fc)
	return res
}

type foreignNode struct{ X []int }

// checkCopyRefusesUnknownTypes: a value of a type the Copy switch does not know must be refused (panic), never passed
// through by reference.
func checkCopyRefusesUnknownTypes(report func(core.Violation)) int {
	n := 0
	try := func(describe string, v any, reach func(c any) any) {
		n++
		var cp any
		p := core.Try(func() { cp = cypher.Copy[any](v) })
		if p != nil {
			return
		}
		if f, ok := reach(cp).(*foreignNode); ok && f != nil {
			report(core.Violation{Class: "copy-unknown-type-passed-by-reference", Summary: "Copy returned a model that still references the un-copyable value of " + describe, Artefact: map[string]any{"kind": "unknown-type", "case": describe}})
		}
	}
	fn := &foreignNode{X: []int{1}}
	try("root of unknown type", fn, func(c any) any { return c })
	for _, t := range nodeStruct {
		for _, f := range fieldsOf(t) {
			if f.class != fNodeIface || !f.exported {
				continue
			}
			p := reflect.New(t)
			fv(p.Elem(), f.path).Set(reflect.ValueOf(fn))
			f := f
			try(t.Name()+"."+f.name, p.Interface(), func(c any) any {
				cv := reflect.ValueOf(c)
				if !cv.IsValid() || cv.Kind() != reflect.Ptr || cv.IsNil() {
					return nil
				}
				x := cv.Elem()
				for _, i := range f.path {
					x = x.Field(i)
				}
				if x.IsNil() {
					return nil
				}
				return readable(x).Interface()
			})
		}
	}
	return n
}

// checkFallibleAPI shows error-list aliasing through the public API alone: a node that collected three errors (AddError
// appends: len 3, cap 4) is copied, then each side records one more error; each side must keep its own.
func checkFallibleAPI(report func(core.Violation)) int {
	n := 0
	for _, t := range nodeStruct {
		p := reflect.New(t)
		orig, ok := p.Interface().(cypher.Fallible)
		if !ok {
			continue
		}
		n++
		orig.AddError(errA)
		orig.AddError(errB)
		orig.AddError(errC)
		var cp any
		if pv := core.Try(func() { cp = cypher.Copy[any](p.Interface()) }); pv != nil {
			continue // judged by the shape enumeration
		}
		c, ok := cp.(cypher.Fallible)
		if !ok {
			continue
		}
		x, y := fmt.Errorf("recorded on the copy"), fmt.Errorf("recorded on the original")
		c.AddError(x)
		orig.AddError(y)
		if got := c.Errors(); len(got) != 4 || got[3] != x {
			report(core.Violation{Class: "copy-aliases-error-list", Summary: fmt.Sprintf("o := &%s{} with 3 AddError calls; c := Copy(o); c.AddError(X); o.AddError(Y) -> c.Errors() = %v (X was overwritten by Y: the error list's backing array is shared)", t.Name(), got), Artefact: map[string]any{"kind": "fallible-api", "case": t.Name(), "at": -1}})
		}
	}
	return n
}
