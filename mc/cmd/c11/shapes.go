package main

// Reflection over the struct definitions of package cypher/models/cypher (list generated at check time, see gen/):
// classification of field types, the reference child set of a node, and the exhaustive bounded generator of synthetic
// model instances.

import (
	"errors"
	"fmt"
	"reflect"
	"sort"
	"strings"
	"unsafe"

	"github.com/specterops/dawgs/cypher/models/cypher"
	"github.com/specterops/dawgs/graph"
)

var (
	cypherPkg  = reflect.TypeOf(cypher.Variable{}).PkgPath()
	kindsType  = reflect.TypeOf(graph.Kinds{})
	errorType  = reflect.TypeOf((*error)(nil)).Elem()
	modelTypes []reflect.Type // every concrete type declared in package cypher
	nodeStruct []reflect.Type // exported struct types: the node types (used as *T)
	nodeMaps   []reflect.Type // named map types (MapLiteral): used by value
	nodeLists  []reflect.Type // named slice types (ListLiteral): used as *T
	leafStruct reflect.Type   // canonical leaf node type used as a generic child
	richStruct reflect.Type   // canonical interior node type used as a generic child
)

type fclass int

const (
	fAttr      fclass = iota // basic value, pointer to basic, slice of basic: attribute, not a child
	fNodePtr                 // *S, S declared in package cypher: optional child
	fNodeIface               // cypher.Expression / cypher.SyntaxNode: optional child of any node type
	fNodeSlice               // slice whose elements are fNodePtr / fNodeIface: every element is a child
	fNodeMap                 // named map type of package cypher (MapLiteral): one child when non-nil
	fLeafCont                // foreign container treated as one leaf child when non-nil (graph.Kinds)
	fPayload                 // plain `any`: opaque user payload (Literal.Value, Parameter.Value), not a child
	fOpaque                  // error and other non-empty interfaces; func; chan
	fStruct                  // embedded/inline struct value: flattened
)

func classify(t reflect.Type) fclass {
	switch t.Kind() {
	case reflect.Bool, reflect.String, reflect.Int, reflect.Int8, reflect.Int16, reflect.Int32, reflect.Int64,
		reflect.Uint, reflect.Uint8, reflect.Uint16, reflect.Uint32, reflect.Uint64, reflect.Float32, reflect.Float64:
		return fAttr
	case reflect.Ptr:
		e := t.Elem()
		if e.PkgPath() == cypherPkg {
			return fNodePtr
		}
		if classify(e) == fAttr {
			return fAttr
		}
		return fOpaque
	case reflect.Interface:
		if t.NumMethod() == 0 {
			if t.PkgPath() == cypherPkg {
				return fNodeIface
			}
			return fPayload
		}
		return fOpaque
	case reflect.Slice:
		switch classify(t.Elem()) {
		case fNodePtr, fNodeIface:
			return fNodeSlice
		case fAttr:
			return fAttr
		}
		if t.Elem() == errorType {
			return fOpaque
		}
		return fLeafCont
	case reflect.Map:
		if t.PkgPath() == cypherPkg {
			return fNodeMap
		}
		return fLeafCont
	case reflect.Struct:
		return fStruct
	}
	return fOpaque
}

// field is one (flattened) field of a node struct.
type field struct {
	path     []int // index path from the struct value
	name     string
	typ      reflect.Type
	class    fclass
	exported bool // false: internal state (e.g. errorContext.errors); never a modelled child
}

var fieldCache = map[reflect.Type][]field{}

func fieldsOf(st reflect.Type) []field {
	if f, ok := fieldCache[st]; ok {
		return f
	}
	var out []field
	var rec func(t reflect.Type, prefix []int, pname string, exported bool)
	rec = func(t reflect.Type, prefix []int, pname string, exported bool) {
		for i := 0; i < t.NumField(); i++ {
			sf := t.Field(i)
			p := append(append([]int{}, prefix...), i)
			c := classify(sf.Type)
			name := pname + sf.Name
			if c == fStruct {
				// embedded helper structs are flattened; an unexported *embedded type* (expressionList) still carries
				// exported fields, so exportedness is decided per leaf field
				rec(sf.Type, p, name+".", exported)
				continue
			}
			out = append(out, field{path: p, name: name, typ: sf.Type, class: c, exported: exported && sf.IsExported()})
		}
	}
	rec(st, nil, "", true)
	fieldCache[st] = out
	return out
}

// fv returns a settable view of a (possibly unexported) field of an addressable struct value.
func fv(structVal reflect.Value, path []int) reflect.Value {
	v := structVal
	for _, i := range path {
		v = v.Field(i)
	}
	if !v.CanSet() {
		v = reflect.NewAt(v.Type(), unsafe.Pointer(v.UnsafeAddr())).Elem()
	}
	return v
}

func initTypes() {
	modelTypes = cypher.VerifModelTypes()
	for _, t := range modelTypes {
		exported := t.Name() != "" && strings.ToUpper(t.Name()[:1]) == t.Name()[:1]
		switch t.Kind() {
		case reflect.Struct:
			if exported {
				nodeStruct = append(nodeStruct, t)
			}
		case reflect.Map:
			if exported {
				nodeMaps = append(nodeMaps, t)
			}
		case reflect.Slice:
			if exported {
				nodeLists = append(nodeLists, t)
			}
		}
	}
	sort.Slice(nodeStruct, func(i, j int) bool { return nodeStruct[i].Name() < nodeStruct[j].Name() })
	// canonical generic children, chosen structurally (not by name): a leaf = struct without node-typed fields, an
	// interior node = struct with exactly one fNodeIface field and nothing else node-typed
	for _, t := range nodeStruct {
		nodeFields, iface := 0, 0
		for _, f := range fieldsOf(t) {
			switch f.class {
			case fNodePtr, fNodeSlice, fNodeMap, fLeafCont:
				nodeFields++
			case fNodeIface:
				nodeFields++
				iface++
			}
		}
		if nodeFields == 0 && (leafStruct == nil || t.Name() == "Variable") {
			leafStruct = t
		}
		if nodeFields == 1 && iface == 1 && (richStruct == nil || t.Name() == "Parenthetical") {
			richStruct = t
		}
	}
	if leafStruct == nil || richStruct == nil {
		panic("no canonical child types found")
	}
}

// ---- reference child set ------------------------------------------------------------------------------------------------

// nkey identifies a node occurrence in a walk: pointer nodes by address, containers by data pointer and length, scalar
// nodes by value, the MapItem the walkers synthesise per map entry by (key, identity of the value).
type nkey struct {
	t reflect.Type
	p uintptr
	n int
	s string
}

func (k nkey) String() string {
	if k.t == nil {
		return "<nil>"
	}
	if k.s != "" || k.p == 0 {
		return fmt.Sprintf("%s(%q,%x)", k.t, k.s, k.p)
	}
	return fmt.Sprintf("%s@%x", k.t, k.p)
}

var mapItemType = reflect.TypeOf(&cypher.MapItem{})

func keyOf(n any) nkey {
	if n == nil {
		return nkey{}
	}
	rv := reflect.ValueOf(n)
	switch rv.Kind() {
	case reflect.Ptr:
		if mi, ok := n.(*cypher.MapItem); ok && mi != nil {
			vk := keyOf(mi.Value)
			return nkey{t: mapItemType, p: vk.p, n: vk.n, s: mi.Key + "\x00" + fmt.Sprint(vk.t) + "\x00" + vk.s}
		}
		return nkey{t: rv.Type(), p: rv.Pointer()}
	case reflect.Slice, reflect.Map:
		return nkey{t: rv.Type(), p: rv.Pointer(), n: rv.Len()}
	case reflect.String:
		return nkey{t: rv.Type(), s: rv.String()}
	case reflect.Bool, reflect.Int, reflect.Int8, reflect.Int16, reflect.Int32, reflect.Int64:
		return nkey{t: rv.Type(), s: fmt.Sprint(rv.Interface())}
	}
	return nkey{t: rv.Type()}
}

func isScalarKey(k nkey) bool {
	if k.t == nil {
		return false
	}
	switch k.t.Kind() {
	case reflect.String, reflect.Bool, reflect.Int, reflect.Int8, reflect.Int16, reflect.Int32, reflect.Int64:
		return true
	}
	return false
}

type refChildren struct {
	required []nkey // the modelled children (multiset)
	attrs    []nkey // scalar attribute values a walker may additionally present as leaf nodes (e.g. Operator)
	nilElems int    // nil elements inside child slices: must make the walk fail
	typedNil int    // typed-nil pointers inside interface fields (not judged)
}

// childrenOf derives, from the struct definition alone, what a structural walk of node n has to visit below n.
func childrenOf(n any) refChildren {
	var rc refChildren
	if n == nil {
		return rc
	}
	rv := reflect.ValueOf(n)
	addIface := func(v reflect.Value) { // v: interface-kinded value
		if v.IsNil() {
			return
		}
		dyn := v.Elem()
		switch dyn.Kind() {
		case reflect.Ptr, reflect.Map, reflect.Slice:
			if dyn.Kind() == reflect.Ptr && dyn.IsNil() {
				rc.typedNil++
				return
			}
		}
		rc.required = append(rc.required, keyOf(dyn.Interface()))
	}
	addSlice := func(v reflect.Value) {
		for i := 0; i < v.Len(); i++ {
			e := v.Index(i)
			switch e.Kind() {
			case reflect.Ptr:
				if e.IsNil() {
					rc.nilElems++
				} else {
					rc.required = append(rc.required, keyOf(e.Interface()))
				}
			case reflect.Interface:
				if e.IsNil() {
					rc.nilElems++
				} else if d := e.Elem(); d.Kind() == reflect.Ptr && d.IsNil() {
					rc.nilElems++
				} else {
					rc.required = append(rc.required, keyOf(d.Interface()))
				}
			}
		}
	}
	switch rv.Kind() {
	case reflect.Map: // MapLiteral: one synthesised MapItem per entry
		if rv.Type().PkgPath() != cypherPkg {
			return rc
		}
		iter := rv.MapRange()
		for iter.Next() {
			var val any
			if !iter.Value().IsNil() {
				val = iter.Value().Elem().Interface()
			}
			rc.required = append(rc.required, keyOf(&cypher.MapItem{Key: iter.Key().String(), Value: val}))
		}
	case reflect.Ptr:
		if rv.IsNil() {
			return rc
		}
		e := rv.Elem()
		switch e.Kind() {
		case reflect.Slice: // *ListLiteral
			if classify(e.Type()) == fNodeSlice {
				addSlice(e)
			}
		case reflect.Struct:
			if e.Type().PkgPath() != cypherPkg {
				return rc
			}
			for _, f := range fieldsOf(e.Type()) {
				v := e
				for _, i := range f.path {
					v = v.Field(i)
				}
				if !f.exported {
					continue
				}
				switch f.class {
				case fNodePtr:
					if !v.IsNil() {
						rc.required = append(rc.required, nkey{t: v.Type(), p: v.Pointer()})
					}
				case fNodeIface:
					addIface(v)
				case fNodeSlice:
					addSlice(v)
				case fNodeMap, fLeafCont:
					if !v.IsNil() {
						rc.required = append(rc.required, nkey{t: v.Type(), p: v.Pointer(), n: v.Len()})
					}
				case fAttr:
					switch v.Kind() {
					case reflect.String:
						rc.attrs = append(rc.attrs, nkey{t: v.Type(), s: v.String()})
					case reflect.Bool, reflect.Int, reflect.Int8, reflect.Int16, reflect.Int32, reflect.Int64:
						rc.attrs = append(rc.attrs, nkey{t: v.Type(), s: fmt.Sprint(v.Interface())})
					}
				}
			}
		}
	}
	return rc
}

// ---- synthetic instances ------------------------------------------------------------------------------------------------

// setting chooses one alternative for one field; a spec is a node type plus a list of settings (everything else zero).
type setting struct {
	Field string `json:"field"`
	Alt   string `json:"alt"`
}

type spec struct {
	Type     string    `json:"type"` // type name in package cypher
	Form     string    `json:"form"` // "ptr" (*T), "value" (T; maps), "nilroot" (typed nil *T)
	Settings []setting `json:"settings"`
	Depth    int       `json:"depth"` // depth of the generated children below the root's fields (1 quick, 2 thorough)
}

func (s spec) String() string {
	var sb strings.Builder
	fmt.Fprintf(&sb, "%s/%s/d%d", s.Type, s.Form, s.Depth)
	for _, x := range s.Settings {
		fmt.Fprintf(&sb, " %s=%s", x.Field, x.Alt)
	}
	return sb.String()
}

func typeByName(name string) reflect.Type {
	for _, t := range modelTypes {
		if t.Name() == name {
			return t
		}
	}
	return nil
}

var (
	errA = errors.New("synthetic error a")
	errB = errors.New("synthetic error b")
	errC = errors.New("synthetic error c")
)

// instance builds a fresh well-formed node of struct type st as *st. depth 0: all fields zero; depth d: every field set
// to its "one child" alternative with children of depth d-1.
func instance(st reflect.Type, depth int) reflect.Value {
	p := reflect.New(st)
	if depth <= 0 {
		return p
	}
	for _, f := range fieldsOf(st) {
		if !f.exported {
			continue
		}
		if a := firstNonZeroAlt(f); a != "" {
			applyAlt(p.Elem(), f, a, depth-1)
		}
	}
	return p
}

func leafNode(tag string) reflect.Value {
	p := reflect.New(leafStruct)
	for _, f := range fieldsOf(leafStruct) {
		if f.typ.Kind() == reflect.String && f.exported {
			fv(p.Elem(), f.path).SetString(tag)
		}
	}
	return p
}

// firstNonZeroAlt is the "one child" alternative of a field (used to build rich children).
func firstNonZeroAlt(f field) string {
	a := altsOf(f, false)
	for _, want := range []string{"one", "set", "leaf", "nonzero", "int"} {
		for _, x := range a {
			if x == want {
				return x
			}
		}
	}
	return ""
}

// altsOf lists the alternatives of a field; index 0 is always the zero value. full=true gives the complete list used for
// single-field settings (for interface fields: one alternative per registered node type); full=false the short list used
// inside pair/triple combinations and rich children.
func altsOf(f field, full bool) []string {
	switch f.class {
	case fNodePtr:
		return []string{"nil", "set"}
	case fNodeIface:
		out := []string{"nil", "leaf", "rich"}
		if full {
			for _, t := range nodeStruct {
				out = append(out, "type:"+t.Name())
			}
			for _, t := range nodeMaps {
				out = append(out, "type:"+t.Name())
			}
			for _, t := range nodeLists {
				out = append(out, "type:"+t.Name())
			}
			out = append(out, "kinds")
		}
		return out
	case fNodeSlice:
		// "emptied": length 0 with spare capacity (a list whose last element was removed): still a mutable part
		return []string{"nil", "empty", "one", "two", "emptied"}
	case fNodeMap:
		return []string{"nil", "empty", "one", "two"}
	case fLeafCont:
		if f.typ == kindsType {
			return []string{"nil", "empty", "one", "two"}
		}
		return []string{"nil"}
	case fPayload:
		return []string{"nil", "int", "string", "slice"}
	case fAttr:
		switch f.typ.Kind() {
		case reflect.Slice:
			return []string{"nil", "empty", "one", "two"}
		case reflect.Ptr:
			return []string{"nil", "set"}
		default:
			return []string{"zero", "nonzero"}
		}
	case fOpaque:
		if f.typ.Kind() == reflect.Slice && f.typ.Elem() == errorType {
			return []string{"nil", "one", "three"}
		}
	}
	return []string{"zero"}
}

func newNodeOfType(t reflect.Type, depth int) reflect.Value {
	switch t.Kind() {
	case reflect.Struct:
		return instance(t, depth)
	case reflect.Map:
		m := reflect.MakeMap(t)
		if depth > 0 && classify(t.Elem()) == fNodeIface {
			m.SetMapIndex(reflect.ValueOf("k"), leafNode("mv"))
		}
		return m
	case reflect.Slice:
		p := reflect.New(t)
		if depth > 0 && classify(t) == fNodeSlice {
			p.Elem().Set(reflect.Append(p.Elem(), elemFor(t.Elem(), 0, "le")))
		}
		return p
	}
	panic("newNodeOfType " + t.String())
}

// elemFor builds one child value assignable to slot type et (a *S or an Expression interface).
func elemFor(et reflect.Type, depth int, tag string) reflect.Value {
	switch classify(et) {
	case fNodePtr:
		e := et.Elem()
		if e.Kind() == reflect.Struct {
			return instance(e, depth)
		}
		return newNodeOfType(e, depth)
	default:
		return leafNode(tag)
	}
}

func applyAlt(structVal reflect.Value, f field, alt string, depth int) {
	v := fv(structVal, f.path)
	t := f.typ
	switch f.class {
	case fNodePtr:
		if alt == "set" {
			v.Set(elemFor(t, depth, "c"))
		}
	case fNodeIface:
		switch {
		case alt == "typednil":
			v.Set(reflect.Zero(reflect.PointerTo(leafStruct)))
		case alt == "leaf":
			v.Set(leafNode("c"))
		case alt == "rich":
			v.Set(instance(richStruct, depth+1))
		case alt == "kinds":
			v.Set(reflect.ValueOf(graph.Kinds{graph.StringKind("A")}))
		case alt == "operator":
			v.Set(reflect.ValueOf(cypher.OperatorEquals))
		case strings.HasPrefix(alt, "type:"):
			v.Set(newNodeOfType(typeByName(alt[5:]), depth+1))
		}
	case fNodeSlice:
		n := map[string]int{"empty": 0, "one": 1, "two": 2, "nilelem": 1, "onethennil": 2}[alt]
		if alt == "nil" {
			return
		}
		if alt == "emptied" {
			one := reflect.Append(reflect.MakeSlice(t, 0, 2), elemFor(t.Elem(), depth, "gone"))
			v.Set(one.Slice(0, 0))
			return
		}
		s := reflect.MakeSlice(t, 0, n)
		for i := 0; i < n; i++ {
			if alt == "nilelem" || (alt == "onethennil" && i == 1) {
				s = reflect.Append(s, reflect.Zero(t.Elem()))
			} else {
				s = reflect.Append(s, elemFor(t.Elem(), depth, fmt.Sprintf("e%d", i)))
			}
		}
		v.Set(s)
	case fNodeMap:
		if alt == "nil" {
			return
		}
		m := reflect.MakeMap(t)
		n := map[string]int{"empty": 0, "one": 1, "two": 2}[alt]
		for i := 0; i < n; i++ {
			m.SetMapIndex(reflect.ValueOf(fmt.Sprintf("k%d", i)), leafNode(fmt.Sprintf("m%d", i)))
		}
		v.Set(m)
	case fLeafCont:
		if t == kindsType && alt != "nil" {
			k := graph.Kinds{}
			if alt == "one" || alt == "two" {
				k = append(k, graph.StringKind("A"))
			}
			if alt == "two" {
				k = append(k, graph.StringKind("B"))
			}
			v.Set(reflect.ValueOf(k))
		}
	case fPayload:
		switch alt {
		case "int":
			v.Set(reflect.ValueOf(int64(7)))
		case "string":
			v.Set(reflect.ValueOf("'s'"))
		case "slice":
			v.Set(reflect.ValueOf([]string{"p", "q"}))
		}
	case fAttr:
		switch t.Kind() {
		case reflect.Slice:
			if alt == "nil" {
				return
			}
			n := map[string]int{"empty": 0, "one": 1, "two": 2}[alt]
			s := reflect.MakeSlice(t, n, n)
			for i := 0; i < n; i++ {
				setScalar(s.Index(i), i+1)
			}
			v.Set(s)
		case reflect.Ptr:
			if alt == "set" {
				p := reflect.New(t.Elem())
				setScalar(p.Elem(), 1)
				v.Set(p)
			}
		default:
			if alt == "nonzero" {
				setScalar(v, 1)
			}
		}
	case fOpaque:
		if t.Kind() == reflect.Slice && t.Elem() == errorType {
			switch alt {
			case "one":
				v.Set(reflect.ValueOf([]error{errA}))
			case "three":
				// built the way AddError builds it: append from nil (len 3, cap 4)
				var es []error
				es = append(es, errA)
				es = append(es, errB)
				es = append(es, errC)
				v.Set(reflect.ValueOf(es))
			}
		}
	}
}

func setScalar(v reflect.Value, i int) {
	switch v.Kind() {
	case reflect.String:
		v.SetString(strings.Repeat("x", i))
	case reflect.Bool:
		v.SetBool(true)
	case reflect.Int, reflect.Int8, reflect.Int16, reflect.Int32, reflect.Int64:
		v.SetInt(int64(i))
	case reflect.Uint, reflect.Uint8, reflect.Uint16, reflect.Uint32, reflect.Uint64:
		v.SetUint(uint64(i))
	case reflect.Float32, reflect.Float64:
		v.SetFloat(float64(i) + 0.5)
	}
}

// build constructs the model a spec describes. Children of the root are "rich" to depth 1 (so the tree is 2 deep below
// the root).
func build(s spec) (root any, err error) {
	t := typeByName(s.Type)
	if t == nil {
		return nil, fmt.Errorf("type %s is not declared in package cypher", s.Type)
	}
	switch t.Kind() {
	case reflect.Struct:
		if s.Form == "nilroot" {
			return reflect.Zero(reflect.PointerTo(t)).Interface(), nil
		}
		p := reflect.New(t)
		fs := fieldsOf(t)
		for _, st := range s.Settings {
			found := false
			for _, f := range fs {
				if f.name == st.Field {
					applyAlt(p.Elem(), f, st.Alt, max(s.Depth, 1))
					found = true
				}
			}
			if !found {
				return nil, fmt.Errorf("type %s has no field %s", s.Type, st.Field)
			}
		}
		return p.Interface(), nil
	case reflect.Map:
		if s.Form == "nilroot" {
			return reflect.Zero(t).Interface(), nil
		}
		m := reflect.MakeMap(t)
		n := 0
		if len(s.Settings) > 0 {
			n = map[string]int{"empty": 0, "one": 1, "two": 2}[s.Settings[0].Alt]
		}
		for i := 0; i < n; i++ {
			m.SetMapIndex(reflect.ValueOf(fmt.Sprintf("k%d", i)), instance(richStruct, 1))
		}
		return m.Interface(), nil
	case reflect.Slice:
		if s.Form == "nilroot" {
			return reflect.Zero(reflect.PointerTo(t)).Interface(), nil
		}
		p := reflect.New(t)
		if len(s.Settings) > 0 {
			alt := s.Settings[0].Alt
			n := map[string]int{"empty": 0, "one": 1, "two": 2, "nilelem": 1}[alt]
			if alt != "nil" {
				sl := reflect.MakeSlice(t, 0, n)
				for i := 0; i < n; i++ {
					if alt == "nilelem" {
						sl = reflect.Append(sl, reflect.Zero(t.Elem()))
					} else {
						sl = reflect.Append(sl, instance(richStruct, 1))
					}
				}
				p.Elem().Set(sl)
			}
		}
		return p.Interface(), nil
	}
	return nil, fmt.Errorf("type %s is not a node type", s.Type)
}

// enumerate lists every spec inside the bound: for each node type, all single-field settings over the full alternative
// lists, all k-wise combinations (k = 2 quick, 3 thorough) over the short lists, the nil-root, and for every child slice
// the nil-element variants.
func enumerate(k, depth int, fullPairs bool) []spec {
	var out []spec
	defer func() {
		for i := range out {
			out[i].Depth = depth
		}
	}()
	for _, t := range nodeStruct {
		fs := fieldsOf(t)
		out = append(out, spec{Type: t.Name(), Form: "ptr"})
		out = append(out, spec{Type: t.Name(), Form: "nilroot"})
		for _, f := range fs {
			for _, a := range altsOf(f, true)[1:] {
				out = append(out, spec{Type: t.Name(), Form: "ptr", Settings: []setting{{f.name, a}}})
			}
			if f.class == fNodeIface && f.exported {
				// a nil pointer stored in the interface-typed child field: a nil branch like any other
				out = append(out, spec{Type: t.Name(), Form: "ptr", Settings: []setting{{f.name, "typednil"}}})
			}
			if f.class == fNodeSlice && f.exported {
				out = append(out, spec{Type: t.Name(), Form: "ptr", Settings: []setting{{f.name, "nilelem"}}})
				out = append(out, spec{Type: t.Name(), Form: "ptr", Settings: []setting{{f.name, "onethennil"}}})
			}
		}
		var rec func(start int, cur []setting)
		rec = func(start int, cur []setting) {
			if len(cur) >= 2 {
				out = append(out, spec{Type: t.Name(), Form: "ptr", Settings: append([]setting{}, cur...)})
			}
			if len(cur) == k {
				return
			}
			for i := start; i < len(fs); i++ {
				for _, a := range altsOf(fs[i], false)[1:] {
					rec(i+1, append(cur, setting{fs[i].name, a}))
				}
			}
		}
		rec(0, nil)
		if fullPairs {
			// thorough: every alternative of the complete list of one field x every short alternative of another field
			for i, f := range fs {
				full := altsOf(f, true)[1:]
				short := altsOf(f, false)[1:]
				if len(full) == len(short) {
					continue
				}
				for _, a := range full[len(short):] {
					for j, g := range fs {
						if i == j {
							continue
						}
						for _, b := range altsOf(g, false)[1:] {
							out = append(out, spec{Type: t.Name(), Form: "ptr", Settings: []setting{{f.name, a}, {g.name, b}}})
						}
					}
				}
			}
		}
	}
	for _, t := range nodeMaps {
		// a nil map is a valid empty map literal, not a nil branch
		for _, a := range []string{"empty", "one", "two"} {
			out = append(out, spec{Type: t.Name(), Form: "value", Settings: []setting{{"", a}}})
		}
	}
	for _, t := range nodeLists {
		out = append(out, spec{Type: t.Name(), Form: "nilroot"})
		for _, a := range []string{"nil", "empty", "one", "two", "nilelem"} {
			out = append(out, spec{Type: t.Name(), Form: "ptr", Settings: []setting{{"", a}}})
		}
	}
	sort.SliceStable(out, func(i, j int) bool { return len(out[i].Settings) < len(out[j].Settings) })
	return out
}

// malformed says whether the spec deliberately contains a nil branch (nil root, nil slice element, or a nil pointer in
// an interface-typed child field).
func (s spec) malformed() bool {
	if s.Form == "nilroot" {
		return true
	}
	for _, x := range s.Settings {
		if x.Alt == "nilelem" || x.Alt == "onethennil" || x.Alt == "typednil" {
			return true
		}
	}
	return false
}
