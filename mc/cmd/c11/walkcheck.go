package main

// Walk oracle: recording visitor, reference child sets, nesting, subset relation between the two Cypher walkers, and the
// consume / done / error protocol at every callback index.

import (
	"errors"
	"fmt"
	"sort"
	"strings"

	"github.com/specterops/dawgs/cypher/models/cypher"
	"github.com/specterops/dawgs/cypher/models/pgsql"
	"github.com/specterops/dawgs/cypher/models/walk"

	"verif/core"
)

type evKind uint8

const (
	evEnter evKind = iota
	evVisit
	evExit
)

func (k evKind) String() string { return [...]string{"Enter", "Visit", "Exit"}[k] }

type event struct {
	kind evKind
	key  nkey
}

func (e event) String() string { return e.kind.String() + "(" + e.key.String() + ")" }

type action uint8

const (
	actNone action = iota
	actConsume
	actDone
	actError
)

func (a action) String() string { return [...]string{"none", "Consume", "SetDone", "SetError"}[a] }

var errSentinel = errors.New("verif sentinel error")

// recorder is a walk.Visitor that records every callback and performs one action at one callback index.
type recorder[N any] struct {
	walk.VisitorHandler
	events []event
	nodes  []any // node per Enter event index (only kept when keep is set)
	keep   bool
	at     int
	act    action
	at2    int // optional second action (used for: Consume in callback i, then stop in the very next callback)
	act2   action
	limit  int
}

func newRecorder[N any](at int, act action) *recorder[N] {
	return &recorder[N]{VisitorHandler: walk.NewCancelableErrorHandler(), at: at, act: act, at2: -1, limit: 1 << 22}
}

func (r *recorder[N]) on(k evKind, node N) {
	idx := len(r.events)
	if idx > r.limit {
		panic("walk does not terminate")
	}
	r.events = append(r.events, event{k, keyOf(any(node))})
	if r.keep {
		r.nodes = append(r.nodes, any(node))
	}
	do := func(a action) {
		switch a {
		case actConsume:
			r.Consume()
		case actDone:
			r.SetDone()
		case actError:
			r.SetError(errSentinel)
		}
	}
	if idx == r.at {
		do(r.act)
	}
	if idx == r.at2 {
		do(r.act2)
	}
}

func (r *recorder[N]) Enter(node N) { r.on(evEnter, node) }
func (r *recorder[N]) Visit(node N) { r.on(evVisit, node) }
func (r *recorder[N]) Exit(node N)  { r.on(evExit, node) }

type walker struct {
	name string
	run  func(root any, at int, act action, keep bool) (events []event, nodes []any, err error, panicked any)
	run2 func(root any, at int, act action, at2 int, act2 action) (events []event, err error, panicked any)
}

func cypherWalker(name string, f func(cypher.SyntaxNode, walk.Visitor[cypher.SyntaxNode]) error) walker {
	return walker{name: name, run: func(root any, at int, act action, keep bool) ([]event, []any, error, any) {
		r := newRecorder[cypher.SyntaxNode](at, act)
		r.keep = keep
		var err error
		p := core.Try(func() { err = f(root, r) })
		return r.events, r.nodes, err, p
	}, run2: func(root any, at int, act action, at2 int, act2 action) ([]event, error, any) {
		r := newRecorder[cypher.SyntaxNode](at, act)
		r.at2, r.act2 = at2, act2
		var err error
		p := core.Try(func() { err = f(root, r) })
		return r.events, err, p
	}}
}

var (
	wStructural = cypherWalker("CypherStructural", walk.CypherStructural)
	wSemantic   = cypherWalker("Cypher", walk.Cypher)
	wPgSQL      = walker{name: "PgSQL", run: func(root any, at int, act action, keep bool) ([]event, []any, error, any) {
		r := newRecorder[pgsql.SyntaxNode](at, act)
		r.keep = keep
		var err error
		p := core.Try(func() { err = walk.PgSQL(root.(pgsql.SyntaxNode), r) })
		return r.events, r.nodes, err, p
	}, run2: func(root any, at int, act action, at2 int, act2 action) ([]event, error, any) {
		r := newRecorder[pgsql.SyntaxNode](at, act)
		r.at2, r.act2 = at2, act2
		var err error
		p := core.Try(func() { err = walk.PgSQL(root.(pgsql.SyntaxNode), r) })
		return r.events, err, p
	}}
)

func fmtEvents(ev []event, around int) string {
	lo, hi := around-3, around+3
	if lo < 0 {
		lo = 0
	}
	if hi > len(ev) {
		hi = len(ev)
	}
	var sb strings.Builder
	fmt.Fprintf(&sb, "[%d events; #%d..%d:", len(ev), lo, hi)
	for i := lo; i < hi; i++ {
		sb.WriteString(" " + ev[i].String())
	}
	sb.WriteString("]")
	return sb.String()
}

// nesting checks that Enter/Exit are properly nested and that Visit only concerns the innermost open node; it returns,
// for every Enter event index, the index of its Exit (-1 when the walk stopped before), the parent Enter index, and the
// direct children.
type tree struct {
	exitOf   []int
	parent   []int
	children map[int][]int // Enter index -> child Enter indices
	complete bool          // every opened node was closed
}

func nesting(ev []event) (*tree, string) {
	t := &tree{exitOf: make([]int, len(ev)), parent: make([]int, len(ev)), children: map[int][]int{}}
	for i := range t.exitOf {
		t.exitOf[i] = -1
		t.parent[i] = -1
	}
	var stack []int
	for i, e := range ev {
		switch e.kind {
		case evEnter:
			if len(stack) > 0 {
				p := stack[len(stack)-1]
				t.parent[i] = p
				t.children[p] = append(t.children[p], i)
			} else if i != 0 {
				return nil, fmt.Sprintf("event %d %s opens a second root", i, e)
			}
			stack = append(stack, i)
		case evVisit:
			if len(stack) == 0 || ev[stack[len(stack)-1]].key != e.key {
				return nil, fmt.Sprintf("event %d %s does not concern the innermost open node", i, e)
			}
		case evExit:
			if len(stack) == 0 || ev[stack[len(stack)-1]].key != e.key {
				return nil, fmt.Sprintf("event %d %s does not close the innermost open node", i, e)
			}
			t.exitOf[stack[len(stack)-1]] = i
			stack = stack[:len(stack)-1]
		}
	}
	t.complete = len(stack) == 0
	return t, ""
}

func sortedKeys(ks []nkey) []string {
	out := make([]string, len(ks))
	for i, k := range ks {
		out[i] = k.String()
	}
	sort.Strings(out)
	return out
}

type walkStats struct {
	nodes, protocolRuns, consumeSkipped int
	baseErr                             bool
}

// checkStructure: CypherStructural on a well-formed model visits exactly the reflection-derived children of every node,
// once each, properly nested; visited(Cypher) ⊆ visited(CypherStructural).
func checkStructure(model any, describe string, artefact any, report func(core.Violation)) (st walkStats, ok bool) {
	ev, nodes, err, p := wStructural.run(model, -1, actNone, true)
	if p != nil {
		report(core.Violation{Class: "walk-panics", Summary: fmt.Sprintf("walk.CypherStructural panicked on %s: %v", describe, p), Artefact: artefact})
		return st, false
	}
	if err != nil {
		report(core.Violation{Class: "walk-node-type-unsupported", Summary: fmt.Sprintf("walk.CypherStructural fails on the well-formed model %s: %v", describe, err), Artefact: artefact})
		return st, false
	}
	t, bad := nesting(ev)
	if bad == "" && !t.complete {
		bad = "the walk returned without closing every entered node"
	}
	if bad != "" {
		report(core.Violation{Class: "walk-enter-exit-not-nested", Summary: fmt.Sprintf("walk.CypherStructural on %s: %s", describe, bad), Artefact: artefact})
		return st, false
	}
	for i, e := range ev {
		if e.kind != evEnter {
			continue
		}
		st.nodes++
		rc := childrenOf(nodes[i])
		var got []nkey
		attrs := map[nkey]int{}
		for _, a := range rc.attrs {
			attrs[a]++
		}
		for _, c := range t.children[i] {
			k := ev[c].key
			if isScalarKey(k) {
				// a walker may present a scalar attribute of the node (the operator of a partial comparison) as a leaf;
				// that is tolerated once per attribute, anything else scalar is an invented child
				if attrs[k] > 0 {
					attrs[k]--
					continue
				}
			}
			got = append(got, k)
		}
		want, have := sortedKeys(rc.required), sortedKeys(got)
		if strings.Join(want, "|") != strings.Join(have, "|") {
			class := "walk-structural-child-set-differs"
			missing, extra := diffMultiset(want, have)
			if len(missing) > 0 && len(extra) == 0 {
				class = "walk-structural-skips-child"
			} else if len(extra) > 0 && len(missing) == 0 {
				class = "walk-structural-visits-child-twice-or-invents"
			}
			report(core.Violation{Class: class, Summary: fmt.Sprintf("walk.CypherStructural on %s: below %s the struct definition has children %v but the walk visited %v (missing %v, extra %v)", describe, e.key, want, have, missing, extra), Artefact: artefact})
			return st, false
		}
	}
	// semantic ⊆ structural
	sev, _, _, sp := wSemantic.run(model, -1, actNone, false)
	if sp != nil {
		report(core.Violation{Class: "walk-panics", Summary: fmt.Sprintf("walk.Cypher panicked on %s: %v", describe, sp), Artefact: artefact})
		return st, false
	}
	structural := map[nkey]bool{}
	for _, e := range ev {
		if e.kind == evEnter {
			structural[e.key] = true
		}
	}
	for _, e := range sev {
		if e.kind == evEnter && !structural[e.key] {
			report(core.Violation{Class: "walk-semantic-visits-node-structural-misses", Summary: fmt.Sprintf("on %s walk.Cypher enters %s which walk.CypherStructural never enters", describe, e.key), Artefact: artefact})
			return st, false
		}
	}
	return st, true
}

func diffMultiset(want, have []string) (missing, extra []string) {
	cnt := map[string]int{}
	for _, w := range want {
		cnt[w]++
	}
	for _, h := range have {
		if cnt[h] > 0 {
			cnt[h]--
		} else {
			extra = append(extra, h)
		}
	}
	for _, w := range want {
		if cnt[w] > 0 {
			cnt[w]--
			missing = append(missing, w)
		}
	}
	return
}

func sameEvents(a, b []event) int {
	n := len(a)
	if len(b) < n {
		n = len(b)
	}
	for i := 0; i < n; i++ {
		if a[i] != b[i] {
			return i
		}
	}
	if len(a) != len(b) {
		return n
	}
	return -1
}

// checkProtocol: for EVERY callback index i of the undisturbed walk and each action, the walk with that action performed
// in callback i must produce exactly the predicted callback sequence:
//
//	SetDone  at i: callbacks 0..i, nothing afterwards, returns nil
//	SetError at i: callbacks 0..i, nothing afterwards, returns that error
//	Consume  at i: in Enter(n)/Visit(n): the remaining children of n are skipped, i.e. callbacks 0..i, then Exit(n) and
//	               everything after it exactly as in the undisturbed walk; in Exit(n): no effect
func checkProtocol(w walker, model any, describe string, artefact func(i int, a action) any, report func(core.Violation), timeUp func() bool) (st walkStats) {
	base, _, err0, p := w.run(model, -1, actNone, false)
	if p != nil {
		report(core.Violation{Class: "walk-panics", Summary: fmt.Sprintf("walk.%s panicked on %s: %v", w.name, describe, p), Artefact: artefact(-1, actNone)})
		return
	}
	st.baseErr = err0 != nil
	t, bad := nesting(base)
	if bad != "" {
		report(core.Violation{Class: "walk-enter-exit-not-nested", Summary: fmt.Sprintf("walk.%s on %s: %s", w.name, describe, bad), Artefact: artefact(-1, actNone)})
		return
	}
	if err0 == nil && !t.complete {
		report(core.Violation{Class: "walk-enter-exit-not-nested", Summary: fmt.Sprintf("walk.%s on %s returned nil without closing every entered node", w.name, describe), Artefact: artefact(-1, actNone)})
		return
	}
	// determinism of the undisturbed walk (the prediction below relies on it)
	again, _, _, _ := w.run(model, -1, actNone, false)
	if d := sameEvents(base, again); d >= 0 {
		report(core.Violation{Class: "walk-not-deterministic", Summary: fmt.Sprintf("walk.%s on %s: two undisturbed walks differ at callback %d", w.name, describe, d), Artefact: artefact(-1, actNone)})
		return
	}
	// index of the innermost open node's Enter at every event
	open := make([]int, len(base))
	var stack []int
	for i, e := range base {
		switch e.kind {
		case evEnter:
			stack = append(stack, i)
			open[i] = i
		case evVisit:
			open[i] = stack[len(stack)-1]
		case evExit:
			open[i] = stack[len(stack)-1]
			stack = stack[:len(stack)-1]
		}
	}
	for i := range base {
		if i%64 == 0 && timeUp() {
			return
		}
		for _, a := range []action{actConsume, actDone, actError} {
			var want []event
			wantErr := "nil"
			switch a {
			case actDone:
				want = base[:i+1]
			case actError:
				want = base[:i+1]
				wantErr = "sentinel"
			case actConsume:
				if base[i].kind == evExit {
					want = base
				} else {
					x := t.exitOf[open[i]]
					if x < 0 {
						st.consumeSkipped++ // the undisturbed walk failed inside this subtree: no prediction
						continue
					}
					want = append(append([]event{}, base[:i+1]...), base[x:]...)
				}
				if err0 != nil {
					wantErr = "base"
				}
			}
			got, _, err, p := w.run(model, i, a, false)
			st.protocolRuns++
			if p != nil {
				report(core.Violation{Class: "walk-panics", Summary: fmt.Sprintf("walk.%s panicked on %s with %s at callback %d: %v", w.name, describe, a, i, p), Artefact: artefact(i, a)})
				return
			}
			if d := sameEvents(want, got); d >= 0 {
				class := map[action]string{actConsume: "walk-consume-does-not-skip-exactly-the-subtree", actDone: "walk-continues-after-done", actError: "walk-continues-after-error"}[a]
				report(core.Violation{Class: class, Summary: fmt.Sprintf("walk.%s on %s, %s in callback %d %s: predicted %s, observed %s", w.name, describe, a, i, base[i], fmtEvents(want, d), fmtEvents(got, d)), Artefact: artefact(i, a)})
				return
			}
			okErr := false
			switch wantErr {
			case "nil":
				okErr = err == nil
			case "sentinel":
				okErr = err != nil && errors.Is(err, errSentinel)
			case "base":
				okErr = err != nil && err.Error() == err0.Error()
			}
			if !okErr {
				class := map[action]string{actConsume: "walk-consume-changes-result", actDone: "walk-done-returns-error", actError: "walk-error-not-returned"}[a]
				report(core.Violation{Class: class, Summary: fmt.Sprintf("walk.%s on %s, %s in callback %d: returned %v, expected %s", w.name, describe, a, i, err, wantErr), Artefact: artefact(i, a)})
				return
			}
			// a stop request made in the callback that immediately follows a Consume (the Exit of the consumed node)
			if a == actConsume && base[i].kind != evExit && len(want) > i+1 {
				for _, stop := range []action{actDone, actError} {
					got, err, p := w.run2(model, i, actConsume, i+1, stop)
					st.protocolRuns++
					if p != nil {
						report(core.Violation{Class: "walk-panics", Summary: fmt.Sprintf("walk.%s panicked on %s with Consume at callback %d then %s: %v", w.name, describe, i, stop, p), Artefact: artefact(i, a)})
						return
					}
					okStop := sameEvents(want[:i+2], got) < 0
					if stop == actDone {
						okStop = okStop && err == nil
					} else {
						okStop = okStop && err != nil && errors.Is(err, errSentinel)
					}
					if !okStop {
						class := map[action]string{actDone: "walk-continues-after-done", actError: "walk-continues-after-error"}[stop]
						report(core.Violation{Class: class, Summary: fmt.Sprintf("walk.%s on %s, Consume in callback %d %s then %s in the next callback %s: predicted %d callbacks and the stop result, observed %s err=%v", w.name, describe, i, base[i], stop, want[i+1], i+2, fmtEvents(got, i+2), err), Artefact: artefact(i, a)})
						return
					}
				}
			}
		}
	}
	st.nodes = len(base)
	return
}

// checkNilBranch: a nil root or a nil element of a child list must make the structural walk fail (never a silent skip).
func checkNilBranch(model any, describe string, artefact any, report func(core.Violation)) {
	ev, _, err, p := wStructural.run(model, -1, actNone, false)
	if p != nil {
		report(core.Violation{Class: "walk-panics", Summary: fmt.Sprintf("walk.CypherStructural panicked on %s: %v", describe, p), Artefact: artefact})
		return
	}
	if err == nil {
		report(core.Violation{Class: "walk-nil-branch-skipped-silently", Summary: fmt.Sprintf("walk.CypherStructural on %s (which contains a nil branch) returned nil after %d callbacks", describe, len(ev)), Artefact: artefact})
	}
}
