// Command c09 decides property C09 (the default parse context admits read-only queries only).
//
// Engine E3, level "exploration". Everything is parsed with frontend.ParseCypher(frontend.DefaultCypherContext(), text).
//
//	G  every grammar derivation of Cypher.g4 with <= k deviations of every rule in its best context, plus <= k-1 deviations at
//	   every other grammar position (k = 2 quick, 3 thorough). The contexts are read-only by construction (token-pool/penalty
//	   setting of verif/enum/grammar), so updating clauses, CALL forms and parameters appear exactly where a deviation put them
//	   - at every position the grammar allows, because every reference to a rule is a position of the enumeration.
//	C  every query of the repository corpora and every single-token deletion / duplication / swap of them.
//	I  for every text of G (<= k-1 deviations) and C that the default context accepts: every insertion of one of 16 updating / CALL
//	   clauses at every clause boundary (start of each reading clause / WITH / RETURN of the raw parse tree, and the end), and of
//	   `$p` at every expression position (each oC_Atom replaced; each node pattern and relationship detail given `$p` properties).
//
// Oracle: (1) a text whose derivation (G) or raw parse tree (all) contains oC_UpdatingClause, any CALL form, oC_Parameter or
// oC_LegacyParameter is rejected; every text of I is rejected. (2) For every accepted text a reflection walk of the model finds
// no UpdatingClause / Create / Merge / MergeAction / Set / SetItem / Remove / RemoveItem / Delete / Parameter value, and if
// translate.Translate accepts the model, the pgsql statement contains no Insert / Update / Delete / Merge / OnConflict node.
package main

import (
	"context"
	"fmt"
	"reflect"
	"runtime/debug"
	"sort"
	"strings"
	"unicode"

	"github.com/antlr4-go/antlr/v4"
	"github.com/specterops/dawgs/cypher/frontend"
	"github.com/specterops/dawgs/cypher/models/cypher"
	"github.com/specterops/dawgs/cypher/models/cypher/format"
	"github.com/specterops/dawgs/cypher/models/pgsql/translate"
	"github.com/specterops/dawgs/drivers/pg/pgutil"
	"github.com/specterops/dawgs/graph"

	"github.com/specterops/dawgs/cypher/parser"

	"verif/core"
	"verif/enum/cytext"
	"verif/enum/grammar"
)

type artefact struct {
	Text   string `json:"text"`
	Origin string `json:"origin"`
	Base   string `json:"base,omitempty"`   // the accepted text an insertion was made into
	Edit   string `json:"edit,omitempty"`   // what was inserted where
	Marker string `json:"marker,omitempty"` // the forbidden construct the generator put into the text
}

var forbiddenRules = []string{"oC_UpdatingClause", "oC_Create", "oC_CreateUnique", "oC_Merge", "oC_MergeAction", "oC_Set", "oC_SetItem", "oC_Remove", "oC_RemoveItem",
	"oC_Delete", "oC_Foreach", "oC_InQueryCall", "oC_StandaloneCall", "oC_ExplicitProcedureInvocation", "oC_ImplicitProcedureInvocation", "oC_Parameter", "oC_LegacyParameter"}

var forbiddenModel = map[string]bool{"cypher.UpdatingClause": true, "cypher.Create": true, "cypher.Merge": true, "cypher.MergeAction": true, "cypher.Set": true,
	"cypher.SetItem": true, "cypher.Remove": true, "cypher.RemoveItem": true, "cypher.Delete": true, "cypher.Parameter": true}

var forbiddenSQL = map[string]bool{"pgsql.Insert": true, "pgsql.Update": true, "pgsql.Delete": true, "pgsql.Merge": true, "pgsql.MatchedUpdate": true,
	"pgsql.MatchedDelete": true, "pgsql.UnmatchedAction": true, "pgsql.OnConflict": true, "pgsql.DoUpdate": true}

var insertClauses = []string{"CREATE (zz)", "CREATE UNIQUE (zz)", "MERGE (zz)", "MERGE (zz) ON CREATE SET zz.a = 1", "MERGE (zz) ON MATCH SET zz.a = 1", "SET zz.a = 1",
	"SET zz += {a: 1}", "SET zz:L", "REMOVE zz.a", "REMOVE zz:L", "DELETE zz", "DETACH DELETE zz", "FOREACH (i IN [1] | SET zz.a = 1)", "CALL zz.p()",
	"CALL zz.p() YIELD a", "CALL zz.p"}

var shortestPanic string

type verdict struct {
	accepted  bool
	err       string
	panicked  string
	model     *cypher.RegularQuery
	rawMarker string // forbidden rule found in the raw parse tree ("" if none or if the raw parser reports syntax errors)
	rawClean  bool   // raw parser had no syntax error
}

func parseDefault(text string) (v verdict) {
	var err error
	if p := core.Try(func() { v.model, err = frontend.ParseCypher(frontend.DefaultCypherContext(), text) }); p != nil {
		v.panicked = fmt.Sprint(p)
		return
	}
	if err != nil {
		v.err = err.Error()
		return
	}
	v.accepted = true
	return
}

func rawMarkers(text string) (marker string, clean bool, tree *cytext.RawTree) {
	if strings.TrimSpace(text) == "" {
		return "", false, nil
	}
	var t *cytext.RawTree
	if p := core.Try(func() { t = cytext.RawParse(strings.TrimSpace(text)) }); p != nil {
		return "", false, nil
	}
	rules := t.RulesIn()
	for _, r := range forbiddenRules {
		if rules[r] > 0 {
			marker = r
			break
		}
	}
	return marker, len(t.Errors) == 0, t
}

func short(s string, n int) string {
	s = strings.ReplaceAll(s, "\n", " ")
	if len(s) > n {
		return s[:n] + "..."
	}
	return s
}

// checkAccepted is oracle (2): the accepted model and its SQL contain nothing that modifies data.
func checkAccepted(run *core.Run, a artefact, m *cypher.RegularQuery) *core.Violation {
	if m == nil {
		return nil // (nil, nil) is C08's finding, not a statement about read-only-ness
	}
	var bad, badPath string
	kinds := map[string]graph.Kind{}
	cytext.WalkValue(m, func(v reflect.Value, path string) {
		if n := cytext.TypeName(v); forbiddenModel[n] && bad == "" {
			bad, badPath = n, path
		}
		if v.Kind() == reflect.Slice && v.Type() == reflect.TypeOf(graph.Kinds{}) && v.CanInterface() {
			for _, k := range v.Interface().(graph.Kinds) {
				if k != nil {
					kinds[k.String()] = k
				}
			}
		}
	})
	if bad != "" {
		return &core.Violation{Class: "accepted-model-contains-" + strings.TrimPrefix(bad, "cypher."), Summary: fmt.Sprintf("default context accepted %q and the model has a %s at %s", short(a.Text, 120), bad, badPath), Artefact: a}
	}
	mapper := pgutil.NewInMemoryKindMapper()
	names := make([]string, 0, len(kinds))
	for k := range kinds {
		names = append(names, k)
	}
	sort.Strings(names)
	for _, k := range names {
		mapper.Put(kinds[k])
	}
	var res translate.Result
	var terr error
	if p := core.Try(func() { res, terr = translate.Translate(context.Background(), m, mapper, nil, 1) }); p != nil {
		if run.Get("translate_panics") == 0 || len(a.Text) < len(shortestPanic) {
			shortestPanic = a.Text
			run.Set("translate_panic_example(C05)", fmt.Sprintf("%q: %v", a.Text, p))
		}
		run.Add("translate_panics", 1)
		return nil
	}
	if terr != nil || res.Statement == nil {
		run.Add("translate_rejected", 1)
		return nil
	}
	run.Add("translated", 1)
	var sqlBad, sqlPath string
	cytext.WalkValue(res.Statement, func(v reflect.Value, path string) {
		if n := cytext.TypeName(v); forbiddenSQL[n] && sqlBad == "" {
			sqlBad, sqlPath = n, path
		}
	})
	if sqlBad != "" {
		return &core.Violation{Class: "accepted-query-translates-to-" + strings.TrimPrefix(sqlBad, "pgsql."), Summary: fmt.Sprintf("default context accepted %q and its SQL contains a %s at %s", short(a.Text, 120), sqlBad, sqlPath), Artefact: a}
	}
	return nil
}

type explorer struct {
	run   *core.Run
	seen  map[[2]uint64]struct{}
	me, n int
}

func fnv2(s string) [2]uint64 {
	const p = 1099511628211
	a, b := uint64(14695981039346656037), uint64(0x9e3779b97f4a7c15)
	for i := 0; i < len(s); i++ {
		a = (a ^ uint64(s[i])) * p
		b = (b + uint64(s[i]) + 1) * 0xff51afd7ed558ccd
		b ^= b >> 29
	}
	return [2]uint64{a, b}
}

func (s *explorer) take(text string) bool {
	h := fnv2(text)
	if int(h[0]%uint64(s.n)) != s.me {
		return false
	}
	if _, dup := s.seen[h]; dup {
		return false
	}
	s.seen[h] = struct{}{}
	return true
}

// eval judges one text. mustReject names the reason the text has to be rejected ("" when only the tree decides).
func (s *explorer) eval(a artefact, mustReject string, insertInto bool) {
	run := s.run
	run.Add("evaluations", 1)
	if run.Get("evaluations")%resetEvery == 0 {
		parser.VerifResetPredictionCaches() // bounds the memory of ANTLR's process-wide prediction caches
	}
	run.Add("texts_"+a.Origin, 1)
	v := parseDefault(a.Text)
	marker, clean, tree := rawMarkers(a.Text)
	if v.panicked != "" {
		run.Add("panics_seen(C08)", 1)
		return
	}
	if marker != "" || mustReject != "" {
		run.Add("texts_with_forbidden_construct", 1)
		if clean {
			run.Add("distinct_nontrivial", 1) // syntactically valid and carrying a forbidden construct: only the filters stand between it and acceptance
		}
	}
	if !v.accepted {
		run.Add("rejected", 1)
		return
	}
	run.Add("accepted", 1)
	if marker != "" {
		run.Report(core.Violation{Class: "accepted-with-" + strings.TrimPrefix(marker, "oC_"), Summary: fmt.Sprintf("default context accepted %q although its parse tree contains %s", short(a.Text, 140), marker), Artefact: a})
		return
	}
	if mustReject != "" {
		cls := "accepted-after-insertion"
		if a.Origin == "grammar" {
			cls = "accepted-derivation-with-" + strings.TrimPrefix(mustReject, "oC_")
		}
		run.Report(core.Violation{Class: cls, Summary: fmt.Sprintf("default context accepted %q (%s)", short(a.Text, 140), mustReject), Artefact: a})
		return
	}
	if viol := checkAccepted(run, a, v.model); viol != nil {
		run.Report(*viol)
	}
	if n := run.Get("accepted"); n == 1 || n == 300 || n == 3000 {
		out, _ := format.RegularQuery(v.model, false)
		run.Sample(map[string]any{"accepted_text": short(a.Text, 200), "origin": a.Origin, "emitted": short(out, 200)})
	}
	if insertInto && tree != nil && clean {
		s.insertions(a, tree)
	}
}

// insertions: part I of the enumeration, driven by the raw parse tree of an accepted text.
func (s *explorer) insertions(base artefact, tree *cytext.RawTree) {
	text := strings.TrimSpace(base.Text)
	rs := []rune(text)
	type edit struct {
		at, until int // replace rs[at:until] by s
		s, what   string
	}
	var edits []edit
	boundaries := map[int]bool{len(rs): true}
	cytext.Walk(tree.Root, func(n antlr.Tree, path []antlr.ParserRuleContext) {
		rc, ok := n.(antlr.ParserRuleContext)
		if !ok {
			return
		}
		start, stop, ok := cytext.Span(rc)
		if !ok {
			return
		}
		switch cytext.RuleName(n) {
		case "oC_ReadingClause", "oC_With", "oC_Return":
			boundaries[start] = true
		case "oC_Atom":
			edits = append(edits, edit{start, stop + 1, "$p", fmt.Sprintf("atom@%d replaced by $p", start)})
		case "oC_NodePattern", "oC_RelationshipDetail":
			replaced := false
			for i := 0; i < rc.GetChildCount(); i++ {
				if c, ok := rc.GetChild(i).(antlr.ParserRuleContext); ok && cytext.RuleName(c) == "oC_Properties" {
					if a, b, ok := cytext.Span(c); ok {
						edits = append(edits, edit{a, b + 1, "$p", fmt.Sprintf("properties@%d replaced by $p", a)})
						replaced = true
					}
				}
			}
			if !replaced {
				edits = append(edits, edit{stop, stop, " $p", fmt.Sprintf("$p properties inserted @%d", stop)})
			}
		}
	})
	var bs []int
	for b := range boundaries {
		bs = append(bs, b)
	}
	sort.Ints(bs)
	for _, b := range bs {
		for _, c := range insertClauses {
			ins := c + " "
			if b == len(rs) {
				ins = " " + c
			}
			edits = append(edits, edit{b, b, ins, fmt.Sprintf("%q inserted @%d", c, b)})
		}
	}
	wordish := func(c rune) bool {
		return c == '_' || c == '`' || c == '$' || unicode.IsLetter(c) || unicode.IsDigit(c)
	}
	for _, e := range edits {
		// never let the inserted text fuse with a neighbouring word: `n` + `$p` would lex as the single name `n$p`
		ins := e.s
		if e.at > 0 && wordish(rs[e.at-1]) && !strings.HasPrefix(ins, " ") {
			ins = " " + ins
		}
		if e.until < len(rs) && wordish(rs[e.until]) && !strings.HasSuffix(ins, " ") {
			ins += " "
		}
		t := string(rs[:e.at]) + ins + string(rs[e.until:])
		if _, dup := s.seen[fnv2("I\x00"+t)]; dup {
			continue
		}
		s.seen[fnv2("I\x00"+t)] = struct{}{}
		reason := "an updating/CALL clause was inserted"
		if strings.Contains(e.s, "$p") {
			reason = "a $parameter was inserted"
		}
		s.eval(artefact{Text: t, Origin: "insertion", Base: base.Text, Edit: e.what}, reason, false)
	}
}

// resetEvery is the number of evaluations after which ANTLR's prediction caches are dropped (overlay accessor in cypher/parser).
const resetEvery = 2000

func main() {
	run := core.Start("C09", "exploration")
	debug.SetGCPercent(150)
	if run.Replay != "" {
		replay(run)
		return
	}
	k := 2
	if run.Tier == core.Thorough {
		k = 3
	}
	if !run.Fork(16) {
		me, n, _ := run.Worker()
		s := &explorer{run: run, seen: map[[2]uint64]struct{}{}, me: me, n: n}
		explore(s, k)
		run.Finish()
	}
	run.Set("rule", fmt.Sprintf("all derivations of Cypher.g4 with <= %d deviations per rule in its best (read-only) context and <= %d at every other grammar position; the repository corpora and all "+
		"single-token deletions/duplications/swaps; for every accepted derivation with <= %d deviations and every accepted corpus text, every insertion of %d updating/CALL clauses at every clause boundary and of $p at every "+
		"atom / pattern-properties position. distinct_nontrivial counts distinct texts (exact: sharded by hash) that carry a forbidden construct and are syntactically valid for the project's raw parser, "+
		"i.e. texts only the filters can stop.", k, k-1, k-1, len(insertClauses)))
	run.Assume("a default context is used for one parse; histories of two contexts (every order of creating and using them) are enumerated over a fixed list of 10 texts")
	run.Assume("the raw parse tree of the project's generated parser is the ground truth for 'contains an updating clause / CALL / parameter'")
	run.Assume("translation uses pgutil.InMemoryKindMapper primed with the kinds of the query; texts the translator rejects or panics on are counted, not judged (C05)")
	run.Finish()
}

// contextHistories: the default context is an object with state (its filters report into it). Every order of creating
// two default contexts and parsing one text with each - creation and use interleaved in all six ways - over a fixed set
// of forbidden and read-only texts: a forbidden text must be rejected by its context whatever happened to the other one.
func contextHistories(run *core.Run) {
	forbidden := []string{
		"match (n) set n.flag = true return n",
		"match (n) where n.name = 'x' set n.flag = true with n return n",
		"match (n) detach delete n",
		"create (n:A) return n",
		"match (n) where n.name = $name return n",
		"match (n) return n limit $l",
		"call db.labels()",
		"match (n) call db.idx(n) yield x return n, x",
	}
	clean := []string{"match (n) return n", "match (n)-[r]->(m) where n.name = 'a' return m"}
	texts := append(append([]string{}, forbidden...), clean...)
	isForbidden := map[string]bool{}
	for _, f := range forbidden {
		isForbidden[f] = true
	}
	// an order is a sequence over N1 N2 P1 P2 with Ni before Pi
	orders := [][]string{
		{"N1", "P1", "N2", "P2"}, {"N1", "N2", "P1", "P2"}, {"N1", "N2", "P2", "P1"},
		{"N2", "N1", "P1", "P2"}, {"N2", "N1", "P2", "P1"}, {"N2", "P2", "N1", "P1"},
	}
	for _, order := range orders {
		for _, t1 := range texts {
			for _, t2 := range texts {
				var c1, c2 *frontend.Context
				for _, op := range order {
					var (
						ctx  *frontend.Context
						text string
					)
					switch op {
					case "N1":
						c1 = frontend.DefaultCypherContext()
						continue
					case "N2":
						c2 = frontend.DefaultCypherContext()
						continue
					case "P1":
						ctx, text = c1, t1
					case "P2":
						ctx, text = c2, t2
					}
					run.Add("context_history_parses", 1)
					var err error
					var m *cypher.RegularQuery
					if p := core.Try(func() { m, err = frontend.ParseCypher(ctx, text) }); p != nil {
						run.Add("panics_seen(C08)", 1)
						continue
					}
					if err == nil && m != nil && isForbidden[text] {
						a := artefact{Text: text, Origin: "context-history", Edit: strings.Join(order, " ") + " with P1=" + t1 + " / P2=" + t2}
						run.Report(core.Violation{Class: "accepted-by-a-default-context-created-before-another-one", Summary: fmt.Sprintf("order %v (N = create a default context, P = parse with it; P1 %q, P2 %q): %q was accepted", order, t1, t2, text), Artefact: a})
					}
				}
			}
		}
	}
	run.Add("context_histories", int64(len(orders)*len(texts)*len(texts)))
	// the same text parsed first with an unfiltered context (as the drivers do internally), then with a default context:
	// what the first parse learned must not help the second
	for _, t := range forbidden {
		for _, variant := range []string{t, " " + t + " ", strings.ToUpper(t[:1]) + t[1:]} {
			_, _ = frontend.ParseCypher(frontend.NewContext(), t)
			run.Add("context_history_parses", 2)
			var err error
			var m *cypher.RegularQuery
			if p := core.Try(func() { m, err = frontend.ParseCypher(frontend.DefaultCypherContext(), variant) }); p != nil {
				continue
			}
			if err == nil && m != nil {
				a := artefact{Text: variant, Origin: "context-history", Edit: "parsed with an unfiltered context first"}
				run.Report(core.Violation{Class: "accepted-by-a-default-context-after-an-unfiltered-parse-of-the-same-text", Summary: fmt.Sprintf("%q was parsed with frontend.NewContext() and then accepted by a default context", variant), Artefact: a})
			}
		}
	}
}

func explore(s *explorer, k int) {
	run := s.run
	if s.me == 0 {
		contextHistories(run)
	}
	insK := k - 1 // insertions are made into the accepted derivations with at most k-1 deviations (and into the corpora)
	corpus, err := cytext.Corpus()
	if err != nil {
		core.Fatalf("corpus: %v", err)
	}
	for _, c := range corpus {
		if s.take(c.Text) {
			s.eval(artefact{Text: c.Text, Origin: "corpus"}, "", true)
		}
	}
	for _, c := range corpus {
		if run.TimeUp() {
			run.Capped("deadline during corpus mutations")
			return
		}
		for _, m := range cytext.Mutations(c.Text) {
			if s.take(m.Text) {
				s.eval(artefact{Text: m.Text, Origin: "mutation", Base: c.Text, Edit: m.Op}, "", false)
			}
		}
	}
	g, err := cytext.LoadGrammar()
	if err != nil {
		core.Fatalf("grammar: %v", err)
	}
	pools := grammar.CypherPools(false)
	if err := cytext.VerifyPools(pools); err != nil {
		core.Fatalf("%v", err)
	}
	gen, err := grammar.New(g, grammar.Options{Pools: pools, Penalty: grammar.CypherPenalty()})
	if err != nil {
		core.Fatalf("grammar: %v", err)
	}
	var idx []int
	for _, r := range forbiddenRules {
		if i := g.RuleIndex(r); i >= 0 {
			idx = append(idx, i)
		} else {
			core.Fatalf("grammar has no rule %s", r)
		}
	}
	positions := map[string]bool{}
	st := gen.Enumerate(grammar.Plan{Root: "oC_Cypher", K: k, OccK: k - 1, Shard: func(t string) bool { return int(fnv2(t)[0]%uint64(s.n)) == s.me }}, func(t grammar.Text) bool {
		if run.TimeUp() {
			run.Capped("deadline during grammar derivations")
			return false
		}
		must := ""
		for n, i := range idx {
			if t.Rules.Has(i) {
				must = forbiddenRules[n]
				break
			}
		}
		if must != "" {
			positions[t.Via] = true
		}
		s.eval(artefact{Text: t.Text, Origin: "grammar", Marker: must}, must, t.Cost <= insK)
		return true
	})
	run.Add("distinct_texts_grammar", st.Distinct)
	if s.me == 0 {
		run.Add("grammar_derivations", st.Derivations)
		run.Add("grammar_contexts", int64(st.Contexts))
		run.Add("grammar_positions_with_forbidden_construct", int64(len(positions)))
	}
}

func replay(run *core.Run) {
	var a artefact
	core.LoadArtefact(run.Replay, &a)
	v := parseDefault(a.Text)
	marker, clean, _ := rawMarkers(a.Text)
	fmt.Printf("input        : %q\norigin       : %s %s %s\n", a.Text, a.Origin, a.Edit, a.Marker)
	fmt.Printf("raw parse    : syntax-clean=%v forbidden-rule=%q\n", clean, marker)
	fmt.Printf("default ctx  : accepted=%v err=%q panic=%q\n", v.accepted, short(v.err, 300), v.panicked)
	must := a.Marker
	if a.Origin == "insertion" {
		must = "inserted clause/parameter"
	}
	fmt.Printf("required     : rejected=%v (forbidden construct by generator: %q, by parse tree: %q); accepted models and their SQL free of data-modifying nodes\n", must != "" || marker != "", must, marker)
	s := &explorer{run: run, seen: map[[2]uint64]struct{}{}, me: 0, n: 1}
	s.eval(a, must, false)
	if run.Violations() == 0 {
		fmt.Println("replay: no violation")
	}
	run.Finish()
}
