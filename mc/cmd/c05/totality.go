package main

import (
	"fmt"
	"sort"
	"strings"
	"sync"
	"sync/atomic"
	"time"

	"github.com/specterops/dawgs/cypher/models/cypher"
	"github.com/specterops/dawgs/cypher/models/walk"

	"verif/core"
	"verif/enum/cyq"
	"verif/xlate"
)

// tcase is the replayable description of one totality/purity evaluation.
type tcase struct {
	Part    string            `json:"part"` // "totality"
	Text    string            `json:"text"`
	Source  string            `json:"source,omitempty"`
	Rename  map[string]string `json:"rename_parameter,omitempty"` // AST-level: parameter symbol -> new symbol
	Variant string            `json:"parameter_variant"`
}

var valueTypes = []string{"string", "int64", "int", "float64", "bool", "strings", "anys", "int64s", "empty-list", "map", "nil", "unsupported"}

func valueOf(typ string) any {
	switch typ {
	case "string":
		return "s"
	case "int64":
		return int64(7)
	case "int":
		return 7
	case "float64":
		return 1.5
	case "bool":
		return true
	case "strings":
		return []string{"a", "b"}
	case "anys":
		return []any{"a", int64(1)}
	case "int64s":
		return []int64{1, 2}
	case "empty-list":
		return []any{}
	case "map":
		return map[string]any{"a": int64(1)}
	case "nil":
		return nil
	case "unsupported":
		return struct{ X int }{1}
	}
	panic("unknown value type " + typ)
}

// variants lists the parameter-map variants for a query with parameter symbols P.
func variants(P []string, full bool) []string {
	out := []string{"nil-map", "empty-map", "keys-named-like-variables"}
	if len(P) == 0 {
		return out
	}
	if !full {
		// queries with three features: the value types that take different paths through parameter negotiation
		for _, t := range []string{"string", "int64", "strings", "nil", "unsupported"} {
			out = append(out, "all:"+t)
		}
		return append(out, "ast:string", "ast:nil")
	}
	for _, t := range valueTypes {
		out = append(out, "all:"+t, "ast:"+t)
	}
	if len(P) > 1 {
		for _, p := range P {
			for _, t := range valueTypes {
				out = append(out, "only:"+p+":"+t)
			}
		}
	}
	return out
}

// build returns the map passed to Translate and the values stored into the AST's Parameter nodes.
func build(variant string, P, V []string) (params map[string]any, inAST map[string]any) {
	parts := strings.Split(variant, ":")
	switch parts[0] {
	case "nil-map":
		return nil, nil
	case "empty-map":
		return map[string]any{}, nil
	case "keys-named-like-variables":
		m := map[string]any{}
		for _, v := range V {
			m[v] = "s"
		}
		for _, p := range P {
			m[p] = "s"
		}
		return m, nil
	case "all":
		m := map[string]any{}
		for _, p := range P {
			m[p] = valueOf(parts[1])
		}
		return m, nil
	case "ast":
		m := map[string]any{}
		for _, p := range P {
			m[p] = valueOf(parts[1])
		}
		return nil, m
	case "only":
		return map[string]any{parts[1]: valueOf(parts[2])}, nil
	}
	panic("unknown variant " + variant)
}

func renameParameters(q *cypher.RegularQuery, rename map[string]string) {
	if len(rename) == 0 {
		return
	}
	_ = walk.Cypher(q, walk.NewSimpleVisitor[cypher.SyntaxNode](func(node cypher.SyntaxNode, _ walk.VisitorHandler) {
		if p, ok := node.(*cypher.Parameter); ok {
			if to, has := rename[p.Symbol]; has {
				p.Symbol = to
			}
		}
	}))
}

func setASTValues(q *cypher.RegularQuery, values map[string]any) {
	_ = walk.Cypher(q, walk.NewSimpleVisitor[cypher.SyntaxNode](func(node cypher.SyntaxNode, _ walk.VisitorHandler) {
		if p, ok := node.(*cypher.Parameter); ok {
			p.Value = values[p.Symbol] // nil when absent
		}
	}))
}

type tresult struct {
	kind         string // ok | error | panic | parse-error
	err          string
	panicSite    string
	panicValue   string
	impure       string // "" or description
	collidesWith string // variable symbol a parameter symbol equals ("" none)
}

// evaluate runs one case on a freshly parsed AST.
func evaluate(c tcase, km *xlate.Mapper) tresult {
	q, err := cyq.Parse(c.Text)
	if err != nil {
		return tresult{kind: "parse-error"}
	}
	return evaluateOn(q, c, km)
}

func evaluateOn(q *cypher.RegularQuery, c tcase, km *xlate.Mapper) tresult {
	renameParameters(q, c.Rename)
	P, V := xlate.ParameterSymbols(q), xlate.VariableSymbols(q)
	params, inAST := build(c.Variant, P, V)
	setASTValues(q, inAST)
	before := fingerprint(q, params)
	o := xlate.AST(q, km.KindMapper, params)
	after := fingerprint(q, params)
	r := tresult{kind: o.Kind(), err: o.Err}
	if before != after {
		r.impure = fmt.Sprintf("fingerprint of (AST, parameter map) before %s != after %s", before, after)
	}
	if o.Panic != "" {
		r.panicSite, r.panicValue = o.PanicSite(), o.Panic
	}
	for _, p := range P {
		for _, v := range V {
			if p == v {
				r.collidesWith = v
			}
		}
	}
	return r
}

func panicClass(r tresult) string {
	if r.collidesWith != "" && strings.Contains(r.panicValue, "pgsql.Parameter") {
		return "parameter-named-like-variable-panics"
	}
	return "panic@" + r.panicSite
}

// runTotality enumerates items x parameter renamings x parameter-map variants.
// The translations of one process run one after the other (a defect that shares state between calls then shows up as
// a wrong result or a history dependence instead of crashing the checker with a runtime fatal error); the items are
// sharded over the forked worker processes. Concurrency is the business of the schedule part and the race pass.
func runTotality(run *core.Run, all []xlate.Item) {
	shard, shards, _ := run.Worker()
	var items []xlate.Item
	for i, it := range all {
		if i%shards == shard {
			items = append(items, it)
		}
	}
	workers := 1
	mappers := make([]*xlate.Mapper, workers)
	for i := range mappers {
		mappers[i] = xlate.NewMapper()
	}
	type slot struct {
		started atomic.Int64 // unix nano of the running case (0 idle)
		current atomic.Pointer[tcase]
	}
	slots := make([]slot, workers)
	type finding struct {
		order int
		v     core.Violation
	}
	var (
		mu       sync.Mutex
		findings []finding
		outcomes = map[string]int64{}
		errKinds = map[string]int64{}
		evals    int64
		renamed  int64
		repeats  int64
		distinct = map[string]bool{}
		done     = make(chan int, workers)
		stuck    = map[int]bool{}
	)
	record := func(order int, c tcase, r tresult) {
		mu.Lock()
		defer mu.Unlock()
		evals++
		outcomes[r.kind]++
		if r.kind == "error" {
			e := r.err
			if len(e) > 60 {
				e = e[:60]
			}
			errKinds[e]++
		}
		if r.kind == "ok" || r.kind == "error" {
			distinct[c.Text] = true
		}
		if r.kind == "panic" {
			findings = append(findings, finding{order, core.Violation{Class: panicClass(r), Summary: fmt.Sprintf("Translate panicked: %s (at %s) [query: %s; parameters: %s; rename %v]", r.panicValue, r.panicSite, c.Text, c.Variant, c.Rename), Artefact: c}})
		}
		if r.impure != "" {
			findings = append(findings, finding{order, core.Violation{Class: "input-mutated", Summary: fmt.Sprintf("Translate changed its input: %s [query: %s; parameters: %s]", r.impure, c.Text, c.Variant), Artefact: c}})
		}
	}
	for w := 0; w < workers; w++ {
		go func(w int) {
			defer func() { done <- w }()
			for i := w; i < len(items); i += workers {
				it := items[i]
				base, err := xlate.ParseItem(it)
				if err != nil {
					mu.Lock()
					outcomes["parse-error"]++
					mu.Unlock()
					continue
				}
				P, V := xlate.ParameterSymbols(base), xlate.VariableSymbols(base)
				renames := []map[string]string{nil}
				for _, p := range P {
					for _, v := range V {
						if v != p {
							renames = append(renames, map[string]string{p: v})
						}
					}
				}
				q := base
				for ri, rn := range renames {
					vs := variants(P, len(it.Features) <= 2)
					if ri > 0 {
						// collision variants: the interesting maps only
						vs = []string{"nil-map", "all:string", "all:nil", "ast:string"}
						mu.Lock()
						renamed++
						mu.Unlock()
					}
					for vi, variant := range vs {
						c := tcase{Part: "totality", Text: it.Text, Source: it.Source, Rename: rn, Variant: variant}
						cc := c
						slots[w].current.Store(&cc)
						slots[w].started.Store(time.Now().UnixNano())
						r := evaluateOn(q, c, mappers[w])
						slots[w].started.Store(0)
						record((i*shards+shard)*1000+ri*50+vi, c, r)
						// the same AST serves all variants (purity was just checked); after an impure call or an AST-level
						// renaming (a renamed parameter may now share its symbol with another one) start from a fresh parse
						if r.impure != "" || len(rn) > 0 {
							if q, err = cyq.Parse(it.Text); err != nil {
								break
							}
						}
						if ri == 0 && vi == 0 && (r.kind == "ok" || r.kind == "error") {
							// determinism: seven more translations must give byte-identical results (an unsorted walk over a
							// two-entry Go map has two orders: seven repeats miss it with probability 2^-7)
							first := canonicalOn(q, variant, mappers[w])
							for rep := 0; rep < 7; rep++ {
								again := canonicalOn(q, variant, mappers[w])
								mu.Lock()
								evals++
								repeats++
								mu.Unlock()
								if again != first {
									mu.Lock()
									findings = append(findings, finding{(i*shards+shard)*1000 + 999, core.Violation{Class: "nondeterministic-translation", Summary: fmt.Sprintf("two translations of %q differ:\n  %s\n  %s", it.Text, first, again), Artefact: hartefact{Part: "history", Second: hcase{Text: it.Text, Variant: variant}, Repeat: 20}}})
									mu.Unlock()
									break
								}
							}
						}
					}
				}
			}
		}(w)
	}
	// wait for the workers. Hang guard (machinery, not the oracle): a worker sitting on one case for hangGuard makes the
	// case a suspect; it is re-run alone in child processes, and only if none of three re-runs returns within
	// hangConfirm is it reported (and the worker abandoned). Otherwise the machine is just busy and we keep waiting.
	finished := 0
	tick := time.NewTicker(500 * time.Millisecond)
	defer tick.Stop()
	cleared := map[*tcase]bool{}
	for finished+len(stuck) < workers {
		select {
		case <-done:
			finished++
		case <-tick.C:
			for w := range slots {
				st := slots[w].started.Load()
				cur := slots[w].current.Load()
				if st == 0 || stuck[w] || cur == nil || cleared[cur] || time.Since(time.Unix(0, st)) <= hangGuard {
					continue
				}
				if confirmHang(*cur) {
					stuck[w] = true
					run.Capped("a translation did not terminate; the share of its worker was not explored")
					findings = append(findings, finding{-1, core.Violation{Class: "translation-does-not-terminate", Summary: fmt.Sprintf("Translate did not return within %s in 3 isolated re-runs (median translation: < 1 ms) [query: %s; parameters: %s]", hangConfirm, cur.Text, cur.Variant), Artefact: *cur}})
				} else {
					cleared[cur] = true
				}
			}
		}
	}
	sort.SliceStable(findings, func(i, j int) bool { return findings[i].order < findings[j].order })
	for _, f := range findings {
		run.Report(f.v)
	}
	run.Add("evaluations", evals)
	run.Add("totality_translate_calls", evals)
	run.Add("totality_parameter_collision_variants", renamed)
	run.Add("determinism_repeated_translations", repeats)
	run.Set("totality_outcomes", outcomes)
	run.Add("totality_distinct_queries_translated_or_rejected", int64(len(distinct)))
	top := map[string]int64{}
	type kv struct {
		k string
		v int64
	}
	var kvs []kv
	for k, v := range errKinds {
		kvs = append(kvs, kv{k, v})
	}
	sort.Slice(kvs, func(i, j int) bool { return kvs[i].v > kvs[j].v })
	for i, e := range kvs {
		if i < 12 {
			top[e.k] = e.v
		}
	}
	run.Set("totality_top_rejections", top)
}
