package main

import (
	"crypto/sha256"
	"encoding/hex"
	"fmt"
	"hash"
	"reflect"
	"sort"
)

// fingerprint is a structural digest of a value graph: every field (exported or not), slice element, map entry and
// pointer target is visited; pointers are numbered in first-visit order, so the digest also captures sharing and
// cycles (pointer identity), not only shape. Two digests taken before and after a call are equal iff the call left
// the reachable structure unchanged.
type fingerprinter struct {
	h    hash.Hash
	seen map[uintptr]int
}

func fingerprint(vs ...any) string {
	f := &fingerprinter{h: sha256.New(), seen: map[uintptr]int{}}
	for _, v := range vs {
		f.walk(reflect.ValueOf(v))
		f.w("|")
	}
	return hex.EncodeToString(f.h.Sum(nil)[:12])
}

func (f *fingerprinter) w(format string, a ...any) { fmt.Fprintf(f.h, format, a...) }

func (f *fingerprinter) walk(v reflect.Value) {
	if !v.IsValid() {
		f.w("<invalid>")
		return
	}
	switch v.Kind() {
	case reflect.Bool:
		f.w("b%v", v.Bool())
	case reflect.Int, reflect.Int8, reflect.Int16, reflect.Int32, reflect.Int64:
		f.w("i%d", v.Int())
	case reflect.Uint, reflect.Uint8, reflect.Uint16, reflect.Uint32, reflect.Uint64, reflect.Uintptr:
		f.w("u%d", v.Uint())
	case reflect.Float32, reflect.Float64:
		f.w("f%v", v.Float())
	case reflect.Complex64, reflect.Complex128:
		f.w("c%v", v.Complex())
	case reflect.String:
		f.w("s%d:%s", v.Len(), v.String())
	case reflect.Pointer:
		if v.IsNil() {
			f.w("nilptr")
			return
		}
		p := v.Pointer()
		if id, ok := f.seen[p]; ok {
			f.w("ref#%d", id)
			return
		}
		f.seen[p] = len(f.seen)
		f.w("ptr#%d{%s:", f.seen[p], v.Type().String())
		f.walk(v.Elem())
		f.w("}")
	case reflect.Interface:
		if v.IsNil() {
			f.w("niliface")
			return
		}
		f.w("iface{%s:", v.Elem().Type().String())
		f.walk(v.Elem())
		f.w("}")
	case reflect.Struct:
		f.w("struct{%s:", v.Type().String())
		for i := 0; i < v.NumField(); i++ {
			f.w("%s=", v.Type().Field(i).Name)
			f.walk(v.Field(i))
			f.w(";")
		}
		f.w("}")
	case reflect.Slice:
		if v.IsNil() {
			f.w("nilslice")
			return
		}
		f.w("slice[%d]{", v.Len())
		for i := 0; i < v.Len(); i++ {
			f.walk(v.Index(i))
			f.w(",")
		}
		f.w("}")
	case reflect.Array:
		f.w("array[%d]{", v.Len())
		for i := 0; i < v.Len(); i++ {
			f.walk(v.Index(i))
			f.w(",")
		}
		f.w("}")
	case reflect.Map:
		if v.IsNil() {
			f.w("nilmap")
			return
		}
		// order the entries by a digest of the key alone (computed with a throw-away pointer table), then visit key and
		// value in that order with the real table, so that pointer numbering does not depend on map iteration order
		type entry struct {
			order string
			k, v  reflect.Value
		}
		var entries []entry
		it := v.MapRange()
		for it.Next() {
			tmp := map[uintptr]int{}
			for p, id := range f.seen {
				tmp[p] = id
			}
			kf := &fingerprinter{h: sha256.New(), seen: tmp}
			kf.walk(it.Key())
			entries = append(entries, entry{hex.EncodeToString(kf.h.Sum(nil)), it.Key(), it.Value()})
		}
		sort.Slice(entries, func(i, j int) bool { return entries[i].order < entries[j].order })
		f.w("map[%d]{", len(entries))
		for _, e := range entries {
			f.walk(e.k)
			f.w("=>")
			f.walk(e.v)
			f.w(",")
		}
		f.w("}")
	case reflect.Func, reflect.Chan, reflect.UnsafePointer:
		if v.IsNil() {
			f.w("nil%s", v.Kind())
		} else {
			f.w("%s@%x", v.Kind(), v.Pointer())
		}
	default:
		f.w("?%s", v.Kind())
	}
}
