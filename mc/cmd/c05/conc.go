package main

import (
	"context"
	"fmt"
	"strings"

	"github.com/specterops/dawgs/cypher/models/pgsql"
	"github.com/specterops/dawgs/graph"

	"verif/core"
	"verif/sched"
	"verif/xlate"
)

// yieldingMapper is the shared kind mapper of the concurrent part: every method is a scheduling point. Translation
// itself contains no synchronisation, so these calls are the only points at which another Translate can interleave
// observably under a cooperative scheduler.
type yieldingMapper struct {
	inner pgsql.KindMapper
	calls int
}

func (m *yieldingMapper) MapKinds(ctx context.Context, kinds graph.Kinds) ([]int16, error) {
	m.calls++
	if s := sched.Current(); s.Active() {
		s.Yield(fmt.Sprintf("KindMapper.MapKinds(%v)", kinds.Strings()), m)
	}
	return m.inner.MapKinds(ctx, kinds)
}

func (m *yieldingMapper) AssertKinds(ctx context.Context, kinds graph.Kinds) ([]int16, error) {
	m.calls++
	if s := sched.Current(); s.Active() {
		s.Yield(fmt.Sprintf("KindMapper.AssertKinds(%v)", kinds.Strings()), m)
	}
	return m.inner.AssertKinds(ctx, kinds)
}

type concSpec struct {
	Queries []hcase `json:"queries"`
}

func (c concSpec) name() string {
	var parts []string
	for _, q := range c.Queries {
		parts = append(parts, q.Text)
	}
	return "conc/" + strings.Join(parts, " || ")
}

// warmUp is translated (outside the scheduler) before every execution and before every sequential reference run: if the
// translator keeps any state between calls, every execution then starts from the same state, so an execution stays a
// function of its schedule (the engine's replay assumption) and leaked state shows up as a wrong result, not as a
// machinery failure.
var warmUp = hcase{Text: "MATCH (w:NodeKind2)<-[:EdgeKind1]-(:NodeKind1) WHERE w:NodeKind1 OR w:NodeKind2 RETURN w", Variant: "nil-map"}

func (c concSpec) scenario() *sched.Scenario {
	// sequential reference results, computed outside the scheduler with an identical mapper
	want := make([]string, len(c.Queries))
	for i, q := range c.Queries {
		m := &xlate.Mapper{KindMapper: &yieldingMapper{inner: xlate.NewMapper().KindMapper}}
		_ = translateCanonical(warmUp, m)
		want[i] = translateCanonical(q, m)
	}
	return &sched.Scenario{
		Name: c.name(),
		New: func() (func(s *sched.Scheduler), func(r *sched.Result) (string, *core.Violation)) {
			shared := &xlate.Mapper{KindMapper: &yieldingMapper{inner: xlate.NewMapper().KindMapper}}
			_ = translateCanonical(warmUp, shared)
			got := make([]string, len(c.Queries))
			main := func(s *sched.Scheduler) {
				for i, q := range c.Queries {
					i, q := i, q
					s.Go(fmt.Sprintf("translate%d", i), func() { got[i] = translateCanonical(q, shared) })
				}
			}
			check := func(r *sched.Result) (string, *core.Violation) {
				if r.Outcome != sched.Completed {
					return r.Outcome.String(), nil
				}
				for i := range got {
					if got[i] != want[i] {
						return "differs", &core.Violation{Class: "concurrent-translation-differs-from-sequential", Summary: fmt.Sprintf("Translate(%q) under this interleaving returned\n  %s\nsequentially it returns\n  %s", c.Queries[i].Text, got[i], want[i])}
					}
				}
				return "all-equal-sequential", nil
			}
			return main, check
		},
	}
}

// concQueries are translatable queries that reach the kind mapper at different points and in different numbers.
var concQueries = []hcase{
	{Text: "MATCH (n:NodeKind1) RETURN n", Variant: "nil-map"},
	{Text: "MATCH (n:NodeKind1)-[r:EdgeKind1|EdgeKind2]->(m:NodeKind2) WHERE n:NodeKind2 RETURN m", Variant: "nil-map"},
	{Text: "MATCH (n:NodeKind1)-[:EdgeKind1*1..2]->(m:NodeKind2) RETURN n", Variant: "nil-map"},
	{Text: "MATCH p = shortestPath((n:NodeKind1)-[:EdgeKind1*1..]->(m:NodeKind2)) RETURN p", Variant: "nil-map"},
	{Text: "MATCH (n:NodeKind1) SET n:NodeKind2 REMOVE n:NodeKind1 RETURN n", Variant: "nil-map"},
	{Text: "MATCH (n)-[r]->(m) WHERE n.name = $p AND type(r) = 'EdgeKind1' RETURN n", Variant: "all:string"},
	{Text: "CREATE (a:NodeKind1)-[:EdgeKind1]->(b:NodeKind2) RETURN a", Variant: "nil-map"},
	{Text: "MATCH (n) WHERE (n)-[:EdgeKind2]->(:NodeKind2) RETURN n", Variant: "nil-map"},
}

func concSpecs(tier core.Tier) []concSpec {
	var out []concSpec
	qs := concQueries
	// all unordered pairs (with repetition): at most (1+4)+(1+4) scheduling points, C(10,5) = 252 schedules
	for i := range qs {
		for j := i; j < len(qs); j++ {
			out = append(out, concSpec{Queries: []hcase{qs[i], qs[j]}})
		}
	}
	// triples over the queries with few mapper calls (all interleavings stay enumerable: <= 13!/(5!4!4!) schedules)
	pool := []int{0, 5, 7}
	if tier == core.Thorough {
		pool = []int{0, 5, 7, 2}
	}
	for a := 0; a < len(pool); a++ {
		for b := a; b < len(pool); b++ {
			for c := b; c < len(pool); c++ {
				out = append(out, concSpec{Queries: []hcase{qs[pool[a]], qs[pool[b]], qs[pool[c]]}})
			}
		}
	}
	return out
}

func runConcurrent(run *core.Run) {
	specs := concSpecs(run.Tier)
	var execs, points, scenarios int64
	maxPoints := 0
	i, n, _ := run.Worker()
	for k, c := range specs {
		if k%n != i {
			continue
		}
		st := sched.Explore(run, c.scenario(), -1)
		scenarios++
		execs += st.Executions
		points += st.Points
		if st.MaxPoints > maxPoints {
			maxPoints = st.MaxPoints
		}
	}
	run.Add("schedule_scenarios", scenarios)
	run.Add("schedules_explored", execs)
	run.Add("schedule_points", points)
	run.Add("evaluations", execs)
	run.Set("max_schedule_points", int64(maxPoints))
}
