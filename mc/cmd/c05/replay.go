package main

import (
	"encoding/json"
	"fmt"
	"os"
	"os/exec"
	"time"

	"verif/core"
	"verif/xlate"
)

func hangChild() {
	var c tcase
	if err := json.Unmarshal([]byte(os.Getenv("VERIF_C05_HANGCHECK")), &c); err != nil {
		os.Exit(2)
	}
	evaluate(c, xlate.NewMapper())
	os.Exit(0)
}

// confirmHang re-runs one case alone in a child process three times; true iff none returns within hangConfirm.
func confirmHang(c tcase) bool {
	b, _ := json.Marshal(c)
	for i := 0; i < 3; i++ {
		cmd := exec.Command(os.Args[0])
		cmd.Env = append(os.Environ(), "VERIF_C05_HANGCHECK="+string(b))
		if err := cmd.Start(); err != nil {
			core.Fatalf("hang check: %v", err)
		}
		done := make(chan error, 1)
		go func() { done <- cmd.Wait() }()
		select {
		case <-done:
			return false
		case <-time.After(hangConfirm):
			_ = cmd.Process.Kill()
		}
	}
	return true
}

func replay(run *core.Run) {
	var head struct {
		Part     string `json:"part"`
		Scenario string `json:"scenario"`
	}
	core.LoadArtefact(run.Replay, &head)
	switch {
	case head.Part == "totality":
		var c tcase
		core.LoadArtefact(run.Replay, &c)
		r := evaluate(c, xlate.NewMapper())
		fmt.Printf("query    : %s\nrename   : %v\nvariant  : %s\noutcome  : %s %s\n", c.Text, c.Rename, c.Variant, r.kind, r.err)
		if r.kind == "panic" {
			fmt.Printf("panic    : %s\nat       : %s\n", r.panicValue, r.panicSite)
			run.Report(core.Violation{Class: panicClass(r), Summary: "Translate panicked: " + r.panicValue + " [query: " + c.Text + "]", Artefact: c})
		}
		if r.impure != "" {
			fmt.Println("purity   :", r.impure)
			run.Report(core.Violation{Class: "input-mutated", Summary: r.impure + " [query: " + c.Text + "]", Artefact: c})
		} else {
			fmt.Println("purity   : fingerprint(AST, parameter map) unchanged")
		}
	case head.Part == "history":
		var a hartefact
		core.LoadArtefact(run.Replay, &a)
		fr, err := fresh(a.Second)
		if err != nil {
			core.Fatalf("%v", err)
		}
		km := xlate.NewMapper()
		if a.First != nil {
			_ = translateCanonical(*a.First, km)
		}
		n := a.Repeat
		if n == 0 {
			n = 1
		}
		for i := 0; i < n; i++ {
			got := translateCanonical(a.Second, km)
			if got != fr {
				fmt.Printf("in-process: %s\nfresh     : %s\n", got, fr)
				run.Report(core.Violation{Class: "history-dependent-translation", Summary: "result differs from the fresh-process result", Artefact: a})
				break
			}
		}
		fmt.Printf("fresh     : %s\n", fr)
	case head.Scenario != "":
		var a struct {
			Scenario string `json:"scenario"`
			Choices  []int  `json:"choices"`
		}
		core.LoadArtefact(run.Replay, &a)
		for _, tier := range []core.Tier{core.Quick, core.Thorough} {
			for _, c := range concSpecs(tier) {
				if c.name() == a.Scenario {
					res, obs, v := c.scenario().Execute(a.Choices, true)
					for _, l := range res.Trace {
						fmt.Println("  ", l)
					}
					fmt.Println("observation:", obs)
					if v != nil {
						v.Artefact = a
						run.Report(*v)
					}
					run.Finish()
				}
			}
		}
		core.Fatalf("scenario %q not found", a.Scenario)
	default:
		core.Fatalf("unknown artefact")
	}
	if run.Violations() == 0 {
		fmt.Println("replay: no violation")
	}
	run.Finish()
}
