package main

import (
	"encoding/json"
	"fmt"
	"os"
	"os/exec"
	"regexp"
	"sort"
	"sync"

	"github.com/specterops/dawgs/cypher/models/cypher"

	"verif/core"
	"verif/enum/cyq"
	"verif/xlate"
)

// hcase is one query of the history-independence part: text + the parameter variant it is translated with.
type hcase struct {
	Text    string `json:"text"`
	Variant string `json:"parameter_variant"`
}

type hartefact struct {
	Part   string `json:"part"` // "history"
	First  *hcase `json:"first,omitempty"`
	Second hcase  `json:"second"`
	Repeat int    `json:"repeat,omitempty"`
}

var (
	reStr = regexp.MustCompile(`'(?:[^']|'')*'`)
	reNum = regexp.MustCompile(`\b\d+(?:\.\d+)?\b`)
)

func skeleton(sql string) string {
	return reNum.ReplaceAllString(reStr.ReplaceAllString(sql, "'?'"), "0")
}

// translateCanonical returns the byte-exact observable result of one Translate call.
func translateCanonical(c hcase, km *xlate.Mapper) string {
	q, err := cyq.Parse(c.Text)
	if err != nil {
		return "parse-error: " + err.Error()
	}
	return canonicalOn(q, c.Variant, km)
}

// canonicalOn is translateCanonical on an already parsed query.
func canonicalOn(q *cypher.RegularQuery, variant string, km *xlate.Mapper) string {
	P, V := xlate.ParameterSymbols(q), xlate.VariableSymbols(q)
	params, inAST := build(variant, P, V)
	setASTValues(q, inAST)
	o := xlate.AST(q, km.KindMapper, params)
	switch o.Kind() {
	case "ok":
		return o.SQL + "\n" + xlate.ParamsJSON(o.Params)
	case "error":
		return "error: " + o.Err
	}
	return "panic: " + o.Panic
}

// freshChild is the body of the child process that performs exactly one translation in a fresh process state.
func freshChild() {
	var c hcase
	if err := json.Unmarshal([]byte(os.Getenv("VERIF_C05_FRESH")), &c); err != nil {
		fmt.Fprintln(os.Stderr, err)
		os.Exit(2)
	}
	b, _ := json.Marshal(translateCanonical(c, xlate.NewMapper()))
	os.Stdout.Write(b)
	os.Exit(0)
}

func fresh(c hcase) (string, error) {
	b, _ := json.Marshal(c)
	cmd := exec.Command(os.Args[0])
	cmd.Env = append(os.Environ(), "VERIF_C05_FRESH="+string(b))
	out, err := cmd.Output()
	if err != nil {
		return "", fmt.Errorf("fresh child: %v", err)
	}
	var s string
	if err := json.Unmarshal(out, &s); err != nil {
		return "", fmt.Errorf("fresh child output: %v", err)
	}
	return s, nil
}

// shortest picks the n shortest translatable queries with pairwise distinct SQL skeletons.
func shortest(items []xlate.Item, n int) []hcase {
	type cand struct {
		text string
	}
	seenText := map[string]bool{}
	var cands []string
	for _, it := range items {
		if !seenText[it.Text] {
			seenText[it.Text] = true
			cands = append(cands, it.Text)
		}
	}
	sort.SliceStable(cands, func(i, j int) bool {
		if len(cands[i]) != len(cands[j]) {
			return len(cands[i]) < len(cands[j])
		}
		return cands[i] < cands[j]
	})
	km := xlate.NewMapper()
	seenSkel := map[string]bool{}
	var out []hcase
	for _, text := range cands {
		if len(out) == n {
			break
		}
		q, err := cyq.Parse(text)
		if err != nil {
			continue
		}
		c := hcase{Text: text, Variant: "nil-map"}
		if len(xlate.ParameterSymbols(q)) > 0 {
			c.Variant = "all:string"
		}
		params, _ := build(c.Variant, xlate.ParameterSymbols(q), xlate.VariableSymbols(q))
		o := xlate.AST(q, km.KindMapper, params)
		if !o.OK() {
			continue
		}
		sk := skeleton(o.SQL)
		if seenSkel[sk] {
			continue
		}
		seenSkel[sk] = true
		out = append(out, c)
	}
	return out
}

// probes are parseable queries the translator must reject because they use a name that is not bound; whatever an
// earlier translation defined (variables, aliases, parameters, generated identifiers) must not make them resolve.
func probes() []hcase {
	var out []hcase
	for _, v := range []string{"n", "m", "r", "p", "x", "u", "c", "a", "z", "o", "n0", "n1", "e0", "s0", "i0", "pi0"} {
		out = append(out, hcase{Text: "MATCH (zq) RETURN " + v, Variant: "nil-map"})
		out = append(out, hcase{Text: "MATCH (zq) WHERE zq.name = $" + v + " RETURN zq", Variant: "all:string"})
	}
	// a second parameter named like a parameter of an earlier query must still get its own identifier
	for _, v := range []string{"p", "ps", "v", "q", "l", "s", "n"} {
		out = append(out, hcase{Text: "MATCH (zq) WHERE zq.a = $zz AND zq.b = $" + v + " RETURN zq", Variant: "all:string"})
	}
	return out
}

func runHistory(run *core.Run, items []xlate.Item, n, repeats int) {
	cases := shortest(items, n)
	translatable := len(cases)
	cases = append(cases, probes()...)
	freshResult := make([]string, len(cases))
	errs := make([]error, len(cases))
	var wg sync.WaitGroup
	sem := make(chan struct{}, xlate.Workers())
	for i := range cases {
		wg.Add(1)
		go func(i int) {
			defer wg.Done()
			sem <- struct{}{}
			defer func() { <-sem }()
			freshResult[i], errs[i] = fresh(cases[i])
		}(i)
	}
	wg.Wait()
	for _, err := range errs {
		if err != nil {
			core.Fatalf("%v", err)
		}
	}
	// all ordered pairs in this (long-lived, already used) process, sharing one kind mapper
	km := xlate.NewMapper()
	var pairs, reps int64
	for i := range cases[:translatable] {
		for j := range cases {
			_ = translateCanonical(cases[i], km)
			got := translateCanonical(cases[j], km)
			pairs++
			if got != freshResult[j] {
				first := cases[i]
				run.Report(core.Violation{Class: "history-dependent-translation", Summary: fmt.Sprintf("Translate(%q) after Translate(%q) differs from its result in a fresh process:\n  after: %s\n  fresh: %s", cases[j].Text, cases[i].Text, got, freshResult[j]),
					Artefact: hartefact{Part: "history", First: &first, Second: cases[j]}})
			}
		}
	}
	for j := range cases {
		for r := 0; r < repeats; r++ {
			got := translateCanonical(cases[j], km)
			reps++
			if got != freshResult[j] {
				run.Report(core.Violation{Class: "nondeterministic-translation", Summary: fmt.Sprintf("repetition %d of Translate(%q) differs from the fresh result:\n  now  : %s\n  fresh: %s", r, cases[j].Text, got, freshResult[j]),
					Artefact: hartefact{Part: "history", Second: cases[j], Repeat: repeats}})
				break
			}
		}
	}
	run.Add("history_queries", int64(translatable))
	run.Add("history_probe_queries", int64(len(cases)-translatable))
	run.Add("history_ordered_pairs", pairs)
	run.Add("history_repetitions", reps)
	run.Add("evaluations", pairs+reps)
	if len(cases) > 0 {
		run.Sample(map[string]any{"history_first": cases[0], "history_last": cases[len(cases)-1], "fresh_result_of_last": freshResult[len(cases)-1]})
	}
}
