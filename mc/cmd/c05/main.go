// Command c05 decides property C05 (translation is a total, deterministic, side-effect-free function).
//
// Parts (all in one evidence file):
//
//	totality+purity  every enumerated / corpus query x parameter-symbol collisions x parameter-map variants is translated
//	                 under recover with a structural fingerprint of (AST, parameter map) before and after
//	determinism      every query is translated eight times; the 40 shortest structurally distinct
//	                 queries in all ordered pairs against results from fresh processes, and 20 repetitions each
//	schedules        engine E1: 2-3 concurrent Translate calls on one kind mapper whose methods are scheduling points,
//	                 all interleavings, each result compared with the sequential result
//	race pass        free-running -race build of concurrent translations on one shared mapper (sampling)
package main

import (
	"fmt"
	"os"
	"runtime"
	"time"

	"verif/core"
	"verif/xlate"
)

const (
	hangGuard   = 60 * time.Second
	hangConfirm = 120 * time.Second
)

func main() {
	if os.Getenv("VERIF_C05_FRESH") != "" {
		freshChild()
		return
	}
	if os.Getenv("VERIF_C05_HANGCHECK") != "" {
		hangChild()
		return
	}
	run := core.Start("C05", "exploration")
	if os.Getenv("VERIF_RACE_CHILD") != "" {
		raceChild(run.Tier)
		return
	}
	if run.Replay != "" {
		replay(run)
		return
	}
	k := 2
	if run.Tier == core.Thorough {
		k = 3
	}
	// Process sharding: the scheduler is process-global and the totality part runs its translations one after the other,
	// so both are split over 16 worker processes; worker 0 also runs the history part.
	if !run.Fork(16) {
		items := xlate.Items(k)
		run.Set("feature_k_bound", int64(k))
		run.Set("rule", fmt.Sprintf("all feature sets with <= %d features (read fragment, parameters, shortest paths, updating clauses) + every corpus text (including shapes the translator rejects) x {parameter symbol renamed to each variable symbol} x parameter maps {nil, empty, keys named like variables, every referenced name bound to each of %d value types via the map and via the AST, each single name bound}; 3 translations per query for determinism; 40 shortest distinct queries x (themselves + 32 probe queries using an unbound name / a parameter named like earlier variables) in all ordered pairs vs fresh-process results, 20 repetitions each; all interleavings of 2-3 concurrent translations at kind-mapper calls", k, len(valueTypes)))
		runTotality(run, items)
		if i, _, _ := run.Worker(); i == 0 {
			runHistory(run, items, 40, 20)
		}
		// one OS thread for the cooperative scheduler: hand-offs between goroutines then never cross CPUs
		runtime.GOMAXPROCS(1)
		runConcurrent(run)
		run.Finish()
	}
	run.Set("distinct_nontrivial", run.Get("totality_distinct_queries_translated_or_rejected"))
	run.RacePass("--tier", string(run.Tier))
	run.Assume("hang detection is a machinery guard (a worker sitting > 60 s on one translation whose median is < 1 ms), confirmed by three isolated re-runs with a 120 s limit before it is reported; no visit counter could be added without changing /repo")
	run.Assume("under the cooperative scheduler the only interleaving points are the shared kind mapper's methods (the translator holds no locks, channels or atomics); unsynchronised sharing is covered by the -race pass (sampling) and by the history-independence part")
	run.Finish()
}
