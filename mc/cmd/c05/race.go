package main

import (
	"fmt"
	"sync"

	"verif/core"
	"verif/xlate"
)

// raceChild is the free-running body executed by the -race build (VERIF_RACE_CHILD=1): many goroutines translate the
// concurrent part's queries plus a slice of the enumeration against ONE shared in-memory kind mapper (all kinds are
// registered beforehand, so the mapper itself is only read).
func raceChild(tier core.Tier) {
	shared := xlate.NewMapper()
	k := 2
	items := xlate.Items(k)
	step := 40
	if tier == core.Thorough {
		step = 8
	}
	var texts []hcase
	for _, q := range concQueries {
		texts = append(texts, q)
	}
	for i := 0; i < len(items); i += step {
		texts = append(texts, hcase{Text: items[i].Text, Variant: "nil-map"})
	}
	const goroutines = 8
	var wg sync.WaitGroup
	results := make([][]string, goroutines)
	for g := 0; g < goroutines; g++ {
		wg.Add(1)
		go func(g int) {
			defer wg.Done()
			for i := range texts {
				// each goroutine walks the list from a different offset so that different queries overlap in time
				c := texts[(i+g*len(texts)/goroutines)%len(texts)]
				results[g] = append(results[g], translateCanonical(c, shared))
			}
		}(g)
	}
	wg.Wait()
	fmt.Printf("race child: %d goroutines x %d translations on one shared kind mapper\n", goroutines, len(texts))
}
