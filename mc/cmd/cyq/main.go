// Command cyq evaluates a Cypher query with the reference evaluator on a graph given as JSON (gm.Graph), for debugging
// and for replaying C01/C02 artefacts by hand: cyq '<graph json>' '<query>'.
package main

import (
	"encoding/json"
	"fmt"
	"os"

	"github.com/specterops/dawgs/cypher/frontend"

	"verif/cyref"
	"verif/gm"
)

func main() {
	var g gm.Graph
	if err := json.Unmarshal([]byte(os.Args[1]), &g); err != nil {
		fmt.Println("graph:", err)
		os.Exit(2)
	}
	for i := range g.Nodes {
		g.Nodes[i].Props, _ = cyref.Normalize(g.Nodes[i].Props).(map[string]any)
	}
	for _, q := range os.Args[2:] {
		m, err := frontend.ParseCypher(frontend.NewContext(), q)
		if err != nil {
			fmt.Println("parse:", err)
			continue
		}
		res, err := cyref.New(&g, nil).Run(m)
		fmt.Println("==", q)
		if err != nil {
			fmt.Println("   error:", err)
			continue
		}
		fmt.Println("   columns:", res.Rows.Columns, "ordered:", res.Ordered, "total:", res.OrderTotal, "truncated:", res.Truncated)
		for _, r := range res.Rows.Seq() {
			fmt.Println("   ", r)
		}
	}
}
