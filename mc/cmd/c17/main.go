// Command c17 decides property C17 (parallel traversal delivers every result exactly once and always terminates).
package main

import (
	"encoding/json"
	"fmt"
	"os"
	"sync"

	"verif/core"
	"verif/sched"
)

func main() {
	run := core.Start("C17", "model_checking")
	if os.Getenv("VERIF_RACE_CHILD") != "" {
		raceChild(run.Tier)
		return
	}
	if run.Replay != "" {
		var raw json.RawMessage
		core.LoadArtefact(run.Replay, &raw)
		if replaySequential(run, raw) {
			run.Finish()
		}
		replay(run)
	}
	if !run.Fork(16, "GOMAXPROCS=1") {
		explore(run)
		runSequentialHelpers(run)
		run.Finish()
	}
	run.RacePass("--tier", string(run.Tier))
	run.Set("states", run.Get("scheduling_points"))
	run.Set("transitions", run.Get("scheduling_points"))
	run.Set("traces_validated_against_impl", run.Get("schedules"))
	run.Assume("states/transitions = scheduling points executed on the real code (stateless exploration, no state caching); every schedule is an execution of the implementation itself")
	run.Finish()
}

type job struct {
	sc    *sched.Scenario
	bound int
	// single: execute the default (non-preemptive) schedule only
	single bool
}

func jobs(tier core.Tier) []job {
	var out []job
	for _, sc := range pipeScenarios(tier) {
		out = append(out, job{sc: sc, bound: -1}) // pipe: every interleaving
	}
	if sc := largeBacklogScenario(70000); sc != nil {
		out = append(out, job{sc: sc, single: true})
	}
	for _, b := range bfSpecs(tier) {
		paths := len(expectedPaths(shapes[b.Shape]))
		bound := 2
		switch {
		case tier == core.Quick && b.Workers >= 2 && paths >= 4:
			continue // left to the thorough tier
		case tier == core.Quick && b.Workers >= 2 && paths >= 2:
			bound = 1
		case tier == core.Thorough && b.Workers == 1:
			bound = 3
		case tier == core.Thorough && b.Workers >= 3 && paths >= 2:
			bound = 1
		}
		out = append(out, job{sc: b.scenario(), bound: bound})
	}
	// big jobs first so that the shards finish together
	return out
}

func explore(run *core.Run) {
	outcomes := int64(0)
	for k, j := range jobs(run.Tier) {
		if !run.Mine(k) {
			continue
		}
		if j.single {
			res, _, v := j.sc.Execute(nil, false)
			run.Add("schedules", 1)
			run.Add("scheduling_points", int64(len(res.Points)))
			run.Add("single_schedule_scenarios", 1)
			if v != nil {
				v.Summary = "[" + j.sc.Name + "] " + v.Summary
				v.Artefact = map[string]any{"scenario": j.sc.Name, "choices": []int{}}
				run.Report(*v)
			}
			continue
		}
		st := sched.Explore(run, j.sc, j.bound)
		run.Add("schedules", st.Executions)
		run.Add("scheduling_points", st.Points)
		run.Add("scenarios", 1)
		run.Add("cached_states", st.States)
		run.Add("pruned_decision_points", st.Pruned)
		run.Add("states_explored_without_caching_table_full", st.CacheFull)
		if len(st.Outcomes) > 1 {
			run.Add("scenarios_with_several_outcomes", 1)
		}
		outcomes += int64(len(st.Outcomes))
		if int64(st.MaxPoints) > run.Get("max_points_per_schedule") {
			run.Set("max_points_per_schedule", int64(st.MaxPoints))
		}
		if int64(st.MaxThreads) > run.Get("max_threads") {
			run.Set("max_threads", int64(st.MaxThreads))
		}
		if os.Getenv("VERIF_DEBUG") != "" {
			fmt.Fprintf(os.Stderr, "SCEN %s bound=%d schedules=%d states=%d exhaustive=%v\n", j.sc.Name, j.bound, st.Executions, st.States, st.Exhaustive)
		}
		bound := "unbounded"
		if j.bound >= 0 {
			bound = fmt.Sprint(j.bound)
		}
		run.Sample(map[string]any{"scenario": j.sc.Name, "preemption_bound": bound, "schedules": st.Executions, "distinct_outcomes": len(st.Outcomes), "exhaustive_within_bound": st.Exhaustive, "states": st.States, "outcomes": st.Outcomes})
		if run.TimeUp() {
			run.Capped("deadline")
			break
		}
	}
	run.Add("distinct_outcomes", outcomes)
}

func replay(run *core.Run) {
	var art struct {
		Scenario string `json:"scenario"`
		Choices  []int  `json:"choices"`
	}
	core.LoadArtefact(run.Replay, &art)
	for _, j := range jobs(core.Thorough) {
		if j.sc.Name == art.Scenario {
			res, obs, v := j.sc.Execute(art.Choices, true)
			for _, l := range res.Trace {
				fmt.Println("  ", l)
			}
			fmt.Println("observation:", obs)
			if v != nil {
				v.Artefact = art
				run.Report(*v)
			} else {
				fmt.Println("replay: no violation")
			}
			run.Finish()
		}
	}
	core.Fatalf("scenario %q not found", art.Scenario)
}

// raceChild: the BreadthFirst bodies as real goroutines under -race.
func raceChild(tier core.Tier) {
	iters := 20
	if tier == core.Thorough {
		iters = 500
	}
	specs := bfSpecs(tier)
	n := 0
	for _, b := range specs {
		if b.Workers < 2 {
			continue
		}
		n++
		for it := 0; it < iters; it++ {
			r := &bfRun{spec: b}
			var wg sync.WaitGroup
			r.body(func(f func()) { wg.Add(1); go func() { defer wg.Done(); f() }() })
			wg.Wait()
			if _, v := r.judge(); v != nil {
				fmt.Fprintf(os.Stderr, "FREE-RUN-VIOLATION class=%s [%s] %s\n", v.Class, b.name(), v.Summary)
			}
		}
	}
	fmt.Printf("race pass: %d BreadthFirst scenarios x %d free-running iterations\n", n, iters)
}
