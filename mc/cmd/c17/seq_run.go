package main

import (
	"context"
	"encoding/json"
	"fmt"
	"sort"
	"strings"

	"github.com/specterops/dawgs/graph"
	"github.com/specterops/dawgs/ops"
	"github.com/specterops/dawgs/query"
	"github.com/specterops/dawgs/traversal"

	"verif/core"
	"verif/gm"
)

// Sequential traversal helpers (last sentence of C17): ops.Traversal, TraversePaths, AcyclicTraverseNodes,
// AcyclicTraverseTerminals, TraverseIntermediaryPaths, LimitSkipTracker and traversal's pattern driver (run through
// BreadthFirst with one worker), executed on every small graph x plan against the in-memory transaction of seq_fake.go
// and compared with the naive reference of seq_ref.go.

const (
	hTraversePaths     = "TraversePaths"
	hAcyclicNodes      = "AcyclicTraverseNodes"
	hAcyclicTerminals  = "AcyclicTraverseTerminals"
	hIntermediaryPaths = "TraverseIntermediaryPaths"
	hTraversal         = "Traversal"
	hPatternDriver     = "PatternDriver"
	hLimitSkipTracker  = "LimitSkipTracker"
)

// seqCase is one (graph, plan) input; it is also the replay artefact.
type seqCase struct {
	Helper         string         `json:"seq_helper"` // marks a sequential-helper artefact
	Graph          gm.Graph       `json:"graph"`
	Root           int64          `json:"root"`
	Direction      string         `json:"direction,omitempty"`        // outbound | inbound (ops helpers)
	BranchKind     string         `json:"branch_kind,omitempty"`      // BranchQuery = KindIn(relationship, kind)
	NodeFilterKind string         `json:"node_filter_kind,omitempty"` // node filter "has this kind"; empty = nil filter
	Skip           int            `json:"skip"`
	Limit          int            `json:"limit"`
	UnorderedRows  string         `json:"unordered_rows,omitempty"` // asc | desc: row order of queries without OrderBy
	Pattern        []seqExpansion `json:"pattern,omitempty"`        // pattern driver
	Calls          int            `json:"calls,omitempty"`          // LimitSkipTracker: number of ShouldCollect calls
	// RowOrderTwin: also run the plan with the other row order for unordered queries and require the same result (a
	// plan with skip/limit must define its result; it may not depend on the order the database happens to return rows)
	RowOrderTwin bool `json:"row_order_twin,omitempty"`
}

func (c *seqCase) String() string {
	b, _ := json.Marshal(c)
	return string(b)
}

type seqPath struct {
	Key   string  `json:"path"` // "<root id>:<edge id>,<edge id>,..."
	Nodes []int64 `json:"nodes"`
}

// seqOutcome is what the code under test did.
type seqOutcome struct {
	Err          string    `json:"error,omitempty"`
	Panic        string    `json:"panic,omitempty"`
	StepBound    bool      `json:"step_bound_hit,omitempty"`
	Paths        []seqPath `json:"paths,omitempty"`         // returned / delivered paths in order
	VisitorCalls []seqPath `json:"visitor_calls,omitempty"` // ops.Traversal: every visitor call
	Nodes        []int64   `json:"nodes,omitempty"`         // returned node set, sorted
	Collected    []int     `json:"collected,omitempty"`     // LimitSkipTracker: indexes of the calls that returned true
	AtLimit      bool      `json:"at_limit,omitempty"`
	Malformed    string    `json:"malformed,omitempty"`
	Queries      int       `json:"queries"`
}

func seqDirection(s string) graph.Direction {
	if s == "inbound" {
		return graph.DirectionInbound
	}
	return graph.DirectionOutbound
}

// checkPath validates a returned graph.Path against the graph: it starts at the root, every edge exists with the
// endpoints and kind the path claims, consecutive nodes are joined by the edge between them (in the plan's direction
// when one is given), and every node carries the kinds the graph gives it.
func (c *seqCase) checkPath(p graph.Path) (seqPath, string) {
	out := seqPath{}
	var edges []int64
	for _, n := range p.Nodes {
		if n == nil {
			return out, "path with a nil node"
		}
		out.Nodes = append(out.Nodes, int64(n.ID))
	}
	for _, e := range p.Edges {
		if e == nil {
			return out, "path with a nil edge"
		}
		edges = append(edges, int64(e.ID))
	}
	if len(out.Nodes) == 0 {
		return out, "path without nodes"
	}
	out.Key = seqPathKey(out.Nodes[0], edges)
	if out.Nodes[0] != c.Root {
		return out, fmt.Sprintf("path %s does not start at the root %d", out.Key, c.Root)
	}
	if len(out.Nodes) != len(edges)+1 {
		return out, fmt.Sprintf("path %s has %d nodes for %d edges", out.Key, len(out.Nodes), len(edges))
	}
	for i, e := range p.Edges {
		ge := c.Graph.Edge(int64(e.ID))
		if ge == nil || ge.Start != int64(e.StartID) || ge.End != int64(e.EndID) || e.Kind == nil || ge.Kind != e.Kind.String() {
			return out, fmt.Sprintf("path %s: edge %d is not an edge of the graph as returned (%d)-[%v]->(%d)", out.Key, e.ID, e.StartID, e.Kind, e.EndID)
		}
		a, b := out.Nodes[i], out.Nodes[i+1]
		forward := ge.Start == a && ge.End == b
		backward := ge.End == a && ge.Start == b
		ok := forward || backward
		switch c.Direction {
		case "outbound":
			ok = forward
		case "inbound":
			ok = backward
		}
		if !ok {
			return out, fmt.Sprintf("path %s: edge %d (%d->%d) does not join its nodes %d and %d in the traversal direction", out.Key, ge.ID, ge.Start, ge.End, a, b)
		}
	}
	for _, n := range p.Nodes {
		gn := c.Graph.Node(int64(n.ID))
		if gn == nil {
			return out, fmt.Sprintf("path %s: node %d is not in the graph", out.Key, n.ID)
		}
		if strings.Join(n.Kinds.Strings(), ",") != strings.Join(gn.Kinds, ",") {
			return out, fmt.Sprintf("path %s: node %d has kinds %v, the graph says %v", out.Key, n.ID, n.Kinds.Strings(), gn.Kinds)
		}
	}
	return out, ""
}

// execute runs the code under test on the case.
func (c *seqCase) execute() (out seqOutcome) {
	w := newSeqWorld(&c.Graph, c.UnorderedRows == "desc")
	handlePanic := func(p any) {
		switch t := p.(type) {
		case nil:
		case seqUnsupported:
			core.Fatalf("sequential helpers: the code under test called %s, which the in-memory transaction does not model (case %s)", string(t), c)
		case seqStepBound:
			out.StepBound = true
		default:
			out.Panic = fmt.Sprint(p)
		}
	}
	defer func() {
		handlePanic(recover())
		out.Queries = w.queries
	}()

	addPath := func(dst *[]seqPath, p graph.Path) {
		sp, bad := c.checkPath(p)
		if bad != "" && out.Malformed == "" {
			out.Malformed = bad
		}
		*dst = append(*dst, sp)
	}
	nodeIDs := func(ns graph.NodeSet) {
		for id, n := range ns {
			if n == nil || n.ID != id {
				out.Malformed = fmt.Sprintf("node set entry %d holds %v", id, n)
			}
			out.Nodes = append(out.Nodes, int64(id))
		}
		sort.Slice(out.Nodes, func(i, j int) bool { return out.Nodes[i] < out.Nodes[j] })
	}
	setErr := func(err error) {
		if err != nil {
			out.Err = err.Error()
		}
	}

	if c.Helper == hLimitSkipTracker {
		t := ops.LimitSkipTracker{Limit: c.Limit, Skip: c.Skip}
		for i := 0; i < c.Calls; i++ {
			if t.ShouldCollect() {
				out.Collected = append(out.Collected, i)
			}
		}
		out.AtLimit = t.AtLimit()
		return
	}

	if c.Helper == hPatternDriver {
		p := traversal.NewPattern()
		for _, ex := range c.Pattern {
			var criteria []graph.Criteria
			if ex.Kind != "" {
				criteria = append(criteria, query.KindIn(query.Relationship(), graph.StringKind(ex.Kind)))
			}
			switch {
			case ex.Dir == "outbound" && ex.Min == 1 && ex.Max == 0:
				p = p.Outbound(criteria...)
			case ex.Dir == "outbound":
				p = p.OutboundWithDepth(ex.Min, ex.Max, criteria...)
			case ex.Min == 1 && ex.Max == 0:
				p = p.Inbound(criteria...)
			default:
				p = p.InboundWithDepth(ex.Min, ex.Max, criteria...)
			}
		}
		db := &seqDB{w: w}
		driver := p.Do(func(terminal *graph.PathSegment) error {
			addPath(&out.Paths, terminal.Path())
			return nil
		})
		err := traversal.New(db, 1).BreadthFirst(context.Background(), traversal.Plan{Root: w.node(c.Root), Driver: driver})
		if db.panicked != nil {
			handlePanic(db.panicked)
		} else {
			setErr(err)
		}
		return
	}

	tx := &seqTx{w: w}
	plan := ops.TraversalPlan{Root: w.node(c.Root), Direction: seqDirection(c.Direction), Skip: c.Skip, Limit: c.Limit}
	if c.BranchKind != "" {
		kind := graph.StringKind(c.BranchKind)
		plan.BranchQuery = func() graph.Criteria { return query.KindIn(query.Relationship(), kind) }
	}
	var nodeFilter ops.NodeFilter
	if c.NodeFilterKind != "" {
		kind := graph.StringKind(c.NodeFilterKind)
		nodeFilter = func(node *graph.Node) bool { return node.Kinds.ContainsOneOf(kind) }
	}
	switch c.Helper {
	case hTraversePaths:
		paths, err := ops.TraversePaths(tx, plan)
		setErr(err)
		for _, p := range paths {
			addPath(&out.Paths, p)
		}
	case hIntermediaryPaths:
		paths, err := ops.TraverseIntermediaryPaths(tx, plan, nodeFilter)
		setErr(err)
		for _, p := range paths {
			addPath(&out.Paths, p)
		}
	case hAcyclicNodes:
		nodes, err := ops.AcyclicTraverseNodes(tx, plan, nodeFilter)
		setErr(err)
		nodeIDs(nodes)
	case hAcyclicTerminals:
		nodes, err := ops.AcyclicTraverseTerminals(tx, plan)
		setErr(err)
		nodeIDs(nodes)
	case hTraversal:
		setErr(ops.Traversal(tx, plan, func(ctx *ops.TraversalContext, segment *graph.PathSegment) error {
			addPath(&out.VisitorCalls, segment.Path())
			if ctx.LimitSkipTracker.ShouldCollect() {
				addPath(&out.Paths, segment.Path())
			}
			return nil
		}))
	default:
		core.Fatalf("sequential helpers: unknown helper %q", c.Helper)
	}
	return
}

// seqWindow: how many of `total` results a skip/limit window keeps (limit 0 = no limit).
func seqWindow(total, skip, limit int) int {
	n := total - skip
	if n < 0 {
		n = 0
	}
	if limit > 0 && n > limit {
		n = limit
	}
	return n
}

// seqVerdict is the reference side of one case.
type seqVerdict struct {
	Reference  any  // printed on replay / in samples
	Nontrivial bool // at least one edge can be followed from the root
	V          *core.Violation
}

func (c *seqCase) fail(ver *seqVerdict, class, format string, a ...any) {
	if ver.V == nil {
		ver.V = &core.Violation{Class: class, Summary: fmt.Sprintf("%s skip=%d limit=%d: ", c.Helper, c.Skip, c.Limit) + fmt.Sprintf(format, a...), Artefact: c}
	}
}

func (c *seqCase) accept() func(int64) bool {
	return func(id int64) bool {
		if c.NodeFilterKind == "" {
			return true
		}
		for _, k := range c.Graph.Node(id).Kinds {
			if k == c.NodeFilterKind {
				return true
			}
		}
		return false
	}
}

func hasRepeatedNode(nodes []int64) bool {
	seen := map[int64]bool{}
	for _, n := range nodes {
		if seen[n] {
			return true
		}
		seen[n] = true
	}
	return false
}

// judge compares the outcome with the naive reference.
func (c *seqCase) judge(out *seqOutcome) *seqVerdict {
	ver := &seqVerdict{}
	slug := strings.ToLower(c.Helper)
	switch {
	case out.StepBound:
		c.fail(ver, "seq-"+slug+"-does-not-terminate", "issued more than %d queries on a graph with %d edges", seqMaxQueries, len(c.Graph.Edges))
	case out.Panic != "":
		c.fail(ver, "seq-"+slug+"-panic", "panicked: %s", out.Panic)
	case out.Err != "":
		c.fail(ver, "seq-"+slug+"-unexpected-error", "returned the error %q", out.Err)
	case out.Malformed != "":
		c.fail(ver, "seq-"+slug+"-malformed-result", "%s", out.Malformed)
	}

	switch c.Helper {
	case hLimitSkipTracker:
		var want []int
		for i := c.Skip; i < c.Calls && (c.Limit == 0 || i < c.Skip+c.Limit); i++ {
			want = append(want, i)
		}
		wantAtLimit := c.Limit > 0 && len(want) >= c.Limit
		ver.Reference = map[string]any{"collected": want, "at_limit": wantAtLimit}
		ver.Nontrivial = c.Calls > 0
		if fmt.Sprint(want) != fmt.Sprint(out.Collected) {
			c.fail(ver, "seq-limitskiptracker-wrong-collection", "%d calls collected the calls %v, skip/limit define %v", c.Calls, out.Collected, want)
		} else if wantAtLimit != out.AtLimit {
			c.fail(ver, "seq-limitskiptracker-wrong-at-limit", "after %d calls AtLimit() = %v, expected %v", c.Calls, out.AtLimit, wantAtLimit)
		}

	case hTraversePaths, hTraversal:
		adj := refSteps(&c.Graph, c.Direction, c.BranchKind)
		want := refMaximalSimplePaths(adj, c.Root)
		ver.Reference = map[string]any{"maximal_node_simple_paths": seqSortedKeys(want), "expected_count": seqWindow(len(want), c.Skip, c.Limit)}
		ver.Nontrivial = len(adj[c.Root]) > 0
		c.judgePaths(ver, slug, out.Paths, want, "a maximal node-simple path")
		if c.Helper == hTraversal && ver.V == nil {
			// the visitor itself: once per terminal segment, until the limit is reached
			seen := map[string]bool{}
			for _, p := range out.VisitorCalls {
				if seen[p.Key] {
					c.fail(ver, "seq-traversal-visitor-called-twice", "the visitor was called twice for the terminal segment %s", p.Key)
				}
				seen[p.Key] = true
				if !want[p.Key] {
					c.fail(ver, "seq-traversal-visitor-called-on-non-terminal", "the visitor was called for %s, which is not a terminal segment (terminal segments: %v)", p.Key, seqSortedKeys(want))
				}
			}
			if c.Limit == 0 && len(out.VisitorCalls) != len(want) {
				c.fail(ver, "seq-traversal-visitor-missed-terminal", "the visitor saw %d terminal segments, the graph has %v", len(out.VisitorCalls), seqSortedKeys(want))
			}
		}

	case hIntermediaryPaths:
		adj := refSteps(&c.Graph, c.Direction, c.BranchKind)
		want := refPathsTo(adj, c.Root, c.accept())
		ver.Reference = map[string]any{"paths_to_accepted_nodes": seqSortedKeys(want), "expected_count": seqWindow(len(want), c.Skip, c.Limit)}
		ver.Nontrivial = len(adj[c.Root]) > 0
		c.judgePaths(ver, slug, out.Paths, want, "a path from the root to a node accepted by the filter")

	case hAcyclicNodes:
		adj := refSteps(&c.Graph, c.Direction, c.BranchKind)
		accept := c.accept()
		reach := refReach(adj, c.Root, 0, false)
		want := map[int64]bool{}
		for n := range reach {
			if accept(n) {
				want[n] = true
			}
		}
		rootIn := 0
		if want[c.Root] {
			rootIn = 1
		}
		others := len(want) - rootIn
		// two readings of skip/limit: the root is outside the window (as implemented) or it is the first result
		a := rootIn + seqWindow(others, c.Skip, c.Limit)
		b := seqWindow(others+rootIn, c.Skip, c.Limit)
		lo, hi := a, b
		if lo > hi {
			lo, hi = hi, lo
		}
		ver.Reference = map[string]any{"reachable_accepted_nodes": seqSortedIDs(want), "expected_count_min": lo, "expected_count_max": hi}
		ver.Nontrivial = len(adj[c.Root]) > 0
		for _, n := range out.Nodes {
			if !reach[n] {
				c.fail(ver, "seq-acyclictraversenodes-unreachable-node", "returned node %d, which is not reachable from the root %d", n, c.Root)
			} else if !want[n] {
				c.fail(ver, "seq-acyclictraversenodes-node-rejected-by-filter", "returned node %d, which the node filter rejects", n)
			}
		}
		if c.Skip == 0 && c.Limit == 0 {
			if len(out.Nodes) != len(want) {
				c.fail(ver, "seq-acyclictraversenodes-missing-node", "returned %v, the accepted nodes reachable from the root are %v", out.Nodes, seqSortedIDs(want))
			}
		} else if len(out.Nodes) < lo || len(out.Nodes) > hi {
			arrivals, distinct := refArrivals(adj, c.Root, accept)
			if arrivals > distinct {
				c.fail(ver, "seq-acyclictraversenodes-skip-limit-counts-revisits", "returned %d nodes %v of the %d accepted reachable nodes %v, expected %d..%d: a node reached over several edges (or the root reached again) is counted against skip/limit every time", len(out.Nodes), out.Nodes, len(want), seqSortedIDs(want), lo, hi)
			} else {
				c.fail(ver, "seq-acyclictraversenodes-skip-limit-wrong-count", "returned %d nodes %v of the %d accepted reachable nodes %v, expected %d..%d", len(out.Nodes), out.Nodes, len(want), seqSortedIDs(want), lo, hi)
			}
		}

	case hAcyclicTerminals:
		adj := refSteps(&c.Graph, c.Direction, c.BranchKind)
		upper, never, definite := refTerminalBounds(adj, c.Root)
		possible := 0
		for n := range upper {
			if !never[n] {
				possible++
			}
		}
		lo, hi := seqWindow(len(definite), c.Skip, c.Limit), seqWindow(possible, c.Skip, c.Limit)
		ver.Reference = map[string]any{"reachable_over_an_edge": seqSortedIDs(upper), "inner_node_of_every_traversal_tree": seqSortedIDs(never), "leaf_of_every_traversal_tree": seqSortedIDs(definite), "expected_count_min": lo, "expected_count_max": hi}
		ver.Nontrivial = len(adj[c.Root]) > 0
		got := map[int64]bool{}
		for _, n := range out.Nodes {
			got[n] = true
			if !upper[n] {
				c.fail(ver, "seq-acyclictraverseterminals-unreachable-node", "returned node %d, which is not reachable from the root %d over an edge", n, c.Root)
			}
		}
		for _, n := range out.Nodes {
			if never[n] {
				c.fail(ver, "seq-acyclictraverseterminals-returns-node-with-descendants", "returned node %d as a terminal although other reachable nodes can only be reached through it (it was reached a second time and not expanded again); returned %v, nodes that are a leaf of every traversal tree: %v", n, out.Nodes, seqSortedIDs(definite))
			}
		}
		if c.Skip == 0 && c.Limit == 0 {
			for _, n := range seqSortedIDs(definite) {
				if !got[n] {
					if len(adj[n]) == 0 {
						c.fail(ver, "seq-acyclictraverseterminals-missing-sink", "node %d is reachable and has no edge to follow, but the terminals returned are %v", n, out.Nodes)
					} else {
						c.fail(ver, "seq-acyclictraverseterminals-misses-leaf-whose-edges-lead-back", "node %d is reachable and all its edges lead back to nodes it was reached through, so no acyclic traversal can descend from it, but the terminals returned are %v", n, out.Nodes)
					}
				}
			}
		} else if len(out.Nodes) < lo || len(out.Nodes) > hi {
			// root cause first: if the terminal set of the same plan without skip/limit is already wrong, say that
			base := c.clone()
			base.Skip, base.Limit = 0, 0
			arrivals, distinct := refArrivals(adj, c.Root, func(int64) bool { return true })
			if _, bv := base.run(); bv.V != nil {
				c.fail(ver, bv.V.Class, "returned %d terminals %v, expected %d..%d; without skip/limit: %s", len(out.Nodes), out.Nodes, lo, hi, bv.V.Summary)
			} else if arrivals > distinct {
				c.fail(ver, "seq-acyclictraverseterminals-skip-limit-counts-revisits", "returned %d terminals %v, expected %d..%d (leaves of every traversal tree %v, possible leaves %d): a node reached over several edges is counted against skip/limit every time", len(out.Nodes), out.Nodes, lo, hi, seqSortedIDs(definite), possible)
			} else {
				c.fail(ver, "seq-acyclictraverseterminals-skip-limit-wrong-count", "returned %d terminals %v, expected %d..%d (leaves of every traversal tree %v, possible leaves %d)", len(out.Nodes), out.Nodes, lo, hi, seqSortedIDs(definite), possible)
			}
		}

	case hPatternDriver:
		terminal, matches, steps := refPatternMatches(&c.Graph, c.Root, c.Pattern)
		ver.Reference = map[string]any{"terminal_matches": seqSortedCountKeys(terminal), "matches": seqSortedKeys(matches)}
		ver.Nontrivial = steps > 0
		got := map[string]int{}
		for _, p := range out.Paths {
			got[p.Key]++
		}
		turns, optional := false, false
		for i := 1; i < len(c.Pattern); i++ {
			turns = turns || c.Pattern[i].Dir != c.Pattern[i-1].Dir
			optional = optional || c.Pattern[i].Min == 0
		}
		for _, p := range out.Paths {
			switch {
			case hasRepeatedNode(p.Nodes):
				c.fail(ver, "seq-patterndriver-delivers-cycle", "the delegate received %s, which visits a node twice (nodes %v)", p.Key, p.Nodes)
			case !matches[p.Key]:
				c.fail(ver, "seq-patterndriver-delivers-non-match", "the delegate received %s, which does not match the pattern %+v; matches: %v", p.Key, c.Pattern, seqSortedKeys(matches))
			case terminal[p.Key] == 0:
				c.fail(ver, "seq-patterndriver-delivers-non-terminal-match", "the delegate received %s, which matches the pattern %+v but can be extended in its last expansion; terminal matches: %v", p.Key, c.Pattern, seqSortedCountKeys(terminal))
			}
		}
		for _, k := range seqSortedCountKeys(terminal) {
			if got[k] == 0 {
				if turns {
					c.fail(ver, "seq-patterndriver-misses-match-after-direction-change", "the terminal match %s of the pattern %+v was never handed to the delegate (delivered: %v)", k, c.Pattern, seqSortedCountKeys(got))
				} else {
					c.fail(ver, "seq-patterndriver-misses-match", "the terminal match %s of the pattern %+v was never handed to the delegate (delivered: %v)", k, c.Pattern, seqSortedCountKeys(got))
				}
			}
		}
		for _, k := range seqSortedCountKeys(got) {
			if terminal[k] > 0 && got[k] > terminal[k] {
				if optional {
					c.fail(ver, "seq-patterndriver-duplicates-match-through-optional-expansion", "the match %s of the pattern %+v was handed to the delegate %d times although it matches in only %d way(s)", k, c.Pattern, got[k], terminal[k])
				} else {
					c.fail(ver, "seq-patterndriver-duplicates-match", "the match %s of the pattern %+v was handed to the delegate %d times although it matches in only %d way(s)", k, c.Pattern, got[k], terminal[k])
				}
			}
		}
		for _, k := range seqSortedCountKeys(got) {
			if got[k] > 0 && got[k] < terminal[k] {
				c.fail(ver, "seq-patterndriver-delivers-match-fewer-times-than-it-matches", "the match %s of the pattern %+v was handed to the delegate %d time(s) although it matches in %d ways", k, c.Pattern, got[k], terminal[k])
			}
		}
	}
	return ver
}

// judgePaths: no path twice, every path in the reference set, and the number the skip/limit window defines.
func (c *seqCase) judgePaths(ver *seqVerdict, slug string, got []seqPath, want map[string]bool, what string) {
	seen := map[string]bool{}
	for _, p := range got {
		if seen[p.Key] {
			c.fail(ver, "seq-"+slug+"-duplicate-path", "returned the path %s twice", p.Key)
		}
		seen[p.Key] = true
		if !want[p.Key] {
			if hasRepeatedNode(p.Nodes) {
				c.fail(ver, "seq-"+slug+"-path-with-cycle", "returned %s, which visits a node twice (nodes %v)", p.Key, p.Nodes)
			} else {
				c.fail(ver, "seq-"+slug+"-unexpected-path", "returned %s, which is not %s; those are %v", p.Key, what, seqSortedKeys(want))
			}
		}
	}
	if n := seqWindow(len(want), c.Skip, c.Limit); len(got) != n {
		keys := make([]string, len(got))
		for i, p := range got {
			keys[i] = p.Key
		}
		if c.Skip == 0 && c.Limit == 0 {
			c.fail(ver, "seq-"+slug+"-missing-path", "returned %v, expected every one of %v", keys, seqSortedKeys(want))
		} else {
			c.fail(ver, "seq-"+slug+"-skip-limit-wrong-count", "returned %d paths %v, skip/limit over the %d paths %v define %d", len(got), keys, len(want), seqSortedKeys(want), n)
		}
	}
}

// run executes and judges one case.
func (c *seqCase) run() (*seqOutcome, *seqVerdict) {
	out := c.execute()
	ver := c.judge(&out)
	if c.RowOrderTwin && ver.V == nil {
		twin := *c
		twin.RowOrderTwin = false
		twin.UnorderedRows = "asc"
		if c.UnorderedRows == "asc" {
			twin.UnorderedRows = "desc"
		}
		other := twin.execute()
		a, b := out.result(), other.result()
		if a != b {
			c.fail(ver, "seq-"+strings.ToLower(c.Helper)+"-skip-limit-result-depends-on-row-order", "the result depends on the order in which the database returns the rows of a query: %s with rows %s, %s with rows %s", a, c.UnorderedRows, b, twin.UnorderedRows)
		}
	}
	return &out, ver
}

// result renders what a helper returned (paths in order, or the node set).
func (o *seqOutcome) result() string {
	keys := make([]string, len(o.Paths))
	for i, p := range o.Paths {
		keys[i] = p.Key
	}
	return fmt.Sprintf("paths %v nodes %v error %q panic %q", keys, o.Nodes, o.Err, o.Panic)
}

// replaySequential re-executes a sequential-helper artefact: it prints both sides of the oracle and reports the
// violation if it reproduces. It returns false when the artefact is not a sequential-helper case.
func replaySequential(run *core.Run, art json.RawMessage) bool {
	var c seqCase
	if err := json.Unmarshal(art, &c); err != nil || c.Helper == "" {
		return false
	}
	out, ver := c.run()
	show := func(label string, v any) {
		b, _ := json.Marshal(v)
		fmt.Printf("%s: %s\n", label, b)
	}
	show("case", &c)
	show("observed", out)
	show("reference", ver.Reference)
	if ver.V != nil {
		run.Report(*ver.V)
	} else {
		fmt.Println("replay: no violation")
	}
	return true
}
