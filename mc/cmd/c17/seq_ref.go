package main

import (
	"sort"
	"strconv"
	"strings"

	"verif/gm"
)

// Naive reference for the sequential traversal helpers, computed directly on the edge list.

// refStep is one edge seen in a traversal direction: from -> to over edge id.
type refStep struct{ id, from, to int64 }

// refSteps lists, per node, the edges leaving it in the traversal direction ("outbound": start -> end, "inbound":
// end -> start) that satisfy the optional edge-kind criterion.
func refSteps(g *gm.Graph, dir, kind string) map[int64][]refStep {
	out := map[int64][]refStep{}
	for _, e := range g.Edges {
		if kind != "" && e.Kind != kind {
			continue
		}
		if dir == "outbound" {
			out[e.Start] = append(out[e.Start], refStep{e.ID, e.Start, e.End})
		} else {
			out[e.End] = append(out[e.End], refStep{e.ID, e.End, e.Start})
		}
	}
	return out
}

// refReach: the nodes reachable from root (root included) when the nodes in `without` are removed.
func refReach(adj map[int64][]refStep, root int64, without int64, useWithout bool) map[int64]bool {
	seen := map[int64]bool{}
	if useWithout && root == without {
		return seen
	}
	seen[root] = true
	todo := []int64{root}
	for len(todo) > 0 {
		u := todo[len(todo)-1]
		todo = todo[:len(todo)-1]
		for _, s := range adj[u] {
			if useWithout && s.to == without {
				continue
			}
			if !seen[s.to] {
				seen[s.to] = true
				todo = append(todo, s.to)
			}
		}
	}
	return seen
}

// refReachPlus: the nodes reachable from root over at least one edge.
func refReachPlus(adj map[int64][]refStep, root int64) map[int64]bool {
	reach := refReach(adj, root, 0, false)
	out := map[int64]bool{}
	for u := range reach {
		for _, s := range adj[u] {
			out[s.to] = true
		}
	}
	return out
}

// refAcyclic: no cycle (self loops included) among the nodes reachable from root.
func refAcyclic(adj map[int64][]refStep, root int64) bool {
	state := map[int64]int{}
	var visit func(u int64) bool
	visit = func(u int64) bool {
		state[u] = 1
		for _, s := range adj[u] {
			switch state[s.to] {
			case 1:
				return false
			case 0:
				if !visit(s.to) {
					return false
				}
			}
		}
		state[u] = 2
		return true
	}
	return visit(root)
}

// refArrivals: how many edges out of reachable nodes arrive at a node accepted by `accept` (every reachable node is
// expanded exactly once by an acyclic traversal, so this is the number of times such a node is encountered), and the
// number of distinct accepted nodes other than the root among them.
func refArrivals(adj map[int64][]refStep, root int64, accept func(int64) bool) (arrivals, distinctNonRoot int) {
	reach := refReach(adj, root, 0, false)
	seen := map[int64]bool{}
	for u := range reach {
		for _, s := range adj[u] {
			if accept(s.to) {
				arrivals++
				if s.to != root && !seen[s.to] {
					seen[s.to] = true
					distinctNonRoot++
				}
			}
		}
	}
	return
}

func seqPathKey(root int64, edges []int64) string {
	var sb strings.Builder
	sb.WriteString(strconv.FormatInt(root, 10))
	sb.WriteString(":")
	for i, e := range edges {
		if i > 0 {
			sb.WriteString(",")
		}
		sb.WriteString(strconv.FormatInt(e, 10))
	}
	return sb.String()
}

// refMaximalSimplePaths: every node-simple path of depth > 0 from root that cannot be extended by an edge to a node
// not yet on it.
func refMaximalSimplePaths(adj map[int64][]refStep, root int64) map[string]bool {
	out := map[string]bool{}
	on := map[int64]bool{root: true}
	var edges []int64
	var rec func(u int64)
	rec = func(u int64) {
		extended := false
		for _, s := range adj[u] {
			if on[s.to] {
				continue
			}
			extended = true
			on[s.to] = true
			edges = append(edges, s.id)
			rec(s.to)
			edges = edges[:len(edges)-1]
			delete(on, s.to)
		}
		if !extended && len(edges) > 0 {
			out[seqPathKey(root, edges)] = true
		}
	}
	rec(root)
	return out
}

// refPathsTo: on a graph that is acyclic from root, every path of depth > 0 from root to a node accepted by `accept`.
func refPathsTo(adj map[int64][]refStep, root int64, accept func(int64) bool) map[string]bool {
	out := map[string]bool{}
	var edges []int64
	var rec func(u int64)
	rec = func(u int64) {
		if len(edges) > 0 && accept(u) {
			out[seqPathKey(root, edges)] = true
		}
		for _, s := range adj[u] {
			edges = append(edges, s.id)
			rec(s.to)
			edges = edges[:len(edges)-1]
		}
	}
	rec(root)
	return out
}

// refTerminalBounds: what "terminal of an acyclic traversal from root" can mean without ambiguity. Any traversal that
// expands every reachable node once defines a spanning tree of the reachable nodes.
//
//	upper:    the nodes reachable over at least one edge (nothing else can be a terminal);
//	never:    nodes that are an inner node of *every* spanning tree, i.e. that lie on every path from root to some other
//	          reachable node (the root itself as soon as anything else is reachable);
//	definite: nodes (other than root) that are a leaf of *every* spanning tree: they have no edge to a node that can be
//	          discovered through them (sinks; nodes whose successors are all their own dominators/ancestors).
func refTerminalBounds(adj map[int64][]refStep, root int64) (upper, never, definite map[int64]bool) {
	reach := refReach(adj, root, 0, false)
	upper = refReachPlus(adj, root)
	never, definite = map[int64]bool{}, map[int64]bool{}
	for n := range upper {
		rest := refReach(adj, root, n, true)
		for m := range reach {
			if m != n && !rest[m] {
				never[n] = true
			}
		}
	}
	for n := range upper {
		if n == root {
			continue
		}
		leafAlways := true
		for _, s := range adj[n] {
			m := s.to
			if m == n || m == root {
				continue
			}
			// can m get n as its parent? only if n is reachable without passing through m
			if refReach(adj, root, m, true)[n] {
				leafAlways = false
			}
		}
		if leafAlways {
			definite[n] = true
		}
	}
	return
}

// seqExpansion is one step of a traversal pattern: Outbound/Inbound with depth (min, max; max 0 = unbounded) and an
// optional edge-kind criterion.
type seqExpansion struct {
	Dir  string `json:"dir"`
	Min  int    `json:"min"`
	Max  int    `json:"max"`
	Kind string `json:"kind,omitempty"`
}

// refPatternMatches enumerates the matches of a pattern from root: a node-simple path split into consecutive sub-paths,
// one per expansion, sub-path i having between min_i and max_i edges that all run in direction dir_i and satisfy
// criterion_i. A match is *terminal* when its last sub-path cannot take one more edge (max reached, or no admissible edge
// to a node not on the path); the driver documents that only those are handed to the delegate.
//
//	terminal[path] = number of distinct splits (decompositions) under which the path is a terminal match
//	matches[path]  = the path is a match (terminal or not) under some split
//	steps          = number of edges followed by the enumeration (0: nothing to traverse from this root)
func refPatternMatches(g *gm.Graph, root int64, exps []seqExpansion) (terminal map[string]int, matches map[string]bool, steps int) {
	terminal, matches = map[string]int{}, map[string]bool{}
	adjs := make([]map[int64][]refStep, len(exps))
	for i, ex := range exps {
		adjs[i] = refSteps(g, ex.Dir, ex.Kind)
	}
	on := map[int64]bool{root: true}
	var edges []int64
	var rec func(u int64, idx, depth int)
	rec = func(u int64, idx, depth int) {
		ex := exps[idx]
		continuations := 0
		if ex.Max == 0 || depth < ex.Max {
			for _, s := range adjs[idx][u] {
				if on[s.to] {
					continue
				}
				continuations++
				steps++
				on[s.to] = true
				edges = append(edges, s.id)
				rec(s.to, idx, depth+1)
				edges = edges[:len(edges)-1]
				delete(on, s.to)
			}
		}
		if depth >= ex.Min {
			if idx+1 < len(exps) {
				rec(u, idx+1, 0)
			} else {
				key := seqPathKey(root, edges)
				matches[key] = true
				if continuations == 0 {
					terminal[key]++
				}
			}
		}
	}
	rec(root, 0, 0)
	return
}

func seqSortedKeys(m map[string]bool) []string {
	out := make([]string, 0, len(m))
	for k := range m {
		out = append(out, k)
	}
	sort.Strings(out)
	return out
}

func seqSortedCountKeys(m map[string]int) []string {
	out := make([]string, 0, len(m))
	for k, n := range m {
		for i := 0; i < n; i++ {
			out = append(out, k)
		}
	}
	sort.Strings(out)
	return out
}

func seqSortedIDs(m map[int64]bool) []int64 {
	out := make([]int64, 0, len(m))
	for k := range m {
		out = append(out, k)
	}
	sort.Slice(out, func(i, j int) bool { return out[i] < out[j] })
	return out
}
