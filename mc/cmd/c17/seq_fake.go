package main

import (
	"context"
	"fmt"
	"sort"

	"github.com/specterops/dawgs/cypher/models/cypher"
	"github.com/specterops/dawgs/graph"
	"github.com/specterops/dawgs/util/size"

	"verif/core"
	"verif/cyref"
	"verif/gm"
)

// The in-memory graph.Database / graph.Transaction the sequential traversal helpers run against.
//
// It answers exactly what ops.Traversal (through ops.ForEachStartNode / ForEachEndNode) and traversal's pattern driver
// call: Relationships().Filter/Filterf(criteria).OrderBy(relationship ascending).FetchDirection(direction, delegate) and
// GraphQueryMemoryLimit(). Every other method panics with seqUnsupported, which the harness turns into a machinery
// failure (exit 2), never into a verdict.
//
// Semantics (trusted, they are the contract of the two real drivers, see drivers/pg/relationship.go and
// drivers/neo4j/relationship.go):
//   - the criteria are a Cypher expression over the variables s (start node), r (relationship), e (end node) of
//     `match (s)-[r]->(e)`; an edge is selected iff every criterion evaluates to true. The expression is evaluated by the
//     reference evaluator verif/cyref.
//   - FetchDirection(DirectionInbound) yields (r, e), FetchDirection(DirectionOutbound) yields (r, s).
//   - with OrderBy(r ascending) rows come in ascending relationship id; without an OrderBy the order is an environment
//     choice (ascending or descending id), enumerated by the checker.
//   - every row carries freshly allocated *graph.Node / *graph.Relationship values, as a driver that scans rows does.

type seqUnsupported string

// seqStepBound is the panic value that ends a run which issued more queries than any terminating run on the bounded
// graphs can need (the termination oracle: a step bound, not a clock).
type seqStepBound struct{ steps int }

// The largest number of queries a case of the thorough tier needs on the unchanged tree is 19 (measured:
// max_seq_queries_per_case).
const seqMaxQueries = 200

type seqWorld struct {
	g              *gm.Graph
	ev             *cyref.Evaluator
	edgesAsc       []*gm.Edge
	unorderedDesc  bool
	queries        int
	orderedQueries int
}

func newSeqWorld(g *gm.Graph, unorderedDesc bool) *seqWorld {
	w := &seqWorld{g: g, ev: cyref.New(g, nil), unorderedDesc: unorderedDesc}
	for i := range g.Edges {
		w.edgesAsc = append(w.edgesAsc, &g.Edges[i])
	}
	sort.Slice(w.edgesAsc, func(i, j int) bool { return w.edgesAsc[i].ID < w.edgesAsc[j].ID })
	return w
}

func (w *seqWorld) node(id int64) *graph.Node {
	n := w.g.Node(id)
	if n == nil {
		core.Fatalf("seq fake: node %d does not exist", id)
	}
	kinds := make(graph.Kinds, 0, len(n.Kinds))
	for _, k := range n.Kinds {
		kinds = append(kinds, graph.StringKind(k))
	}
	return graph.NewNode(graph.ID(n.ID), graph.NewProperties(), kinds...)
}

func (w *seqWorld) relationship(e *gm.Edge) *graph.Relationship {
	return graph.NewRelationship(graph.ID(e.ID), graph.ID(e.Start), graph.ID(e.End), graph.NewProperties(), graph.StringKind(e.Kind))
}

// seqDB ---------------------------------------------------------------------------------------------------------------

type seqDB struct {
	graph.Database // nil: BreadthFirst only calls ReadTransaction
	w              *seqWorld
	panicked       any // a panic of the transaction delegate (it runs on a worker goroutine of BreadthFirst)
}

func (d *seqDB) ReadTransaction(ctx context.Context, txDelegate graph.TransactionDelegate, options ...graph.TransactionOption) (err error) {
	defer func() {
		if p := recover(); p != nil {
			d.panicked = p
			err = fmt.Errorf("panic in transaction delegate: %v", p)
		}
	}()
	return txDelegate(&seqTx{w: d.w})
}

// seqTx ---------------------------------------------------------------------------------------------------------------

type seqTx struct{ w *seqWorld }

func (t *seqTx) Relationships() graph.RelationshipQuery { return &seqRelQuery{w: t.w} }
func (t *seqTx) GraphQueryMemoryLimit() size.Size       { return 0 }

func (t *seqTx) WithGraph(graph.Graph) graph.Transaction {
	panic(seqUnsupported("Transaction.WithGraph"))
}
func (t *seqTx) CreateNode(*graph.Properties, ...graph.Kind) (*graph.Node, error) {
	panic(seqUnsupported("Transaction.CreateNode"))
}
func (t *seqTx) UpdateNode(*graph.Node) error { panic(seqUnsupported("Transaction.UpdateNode")) }
func (t *seqTx) Nodes() graph.NodeQuery       { panic(seqUnsupported("Transaction.Nodes")) }
func (t *seqTx) CreateRelationshipByIDs(graph.ID, graph.ID, graph.Kind, *graph.Properties) (*graph.Relationship, error) {
	panic(seqUnsupported("Transaction.CreateRelationshipByIDs"))
}
func (t *seqTx) UpdateRelationship(*graph.Relationship) error {
	panic(seqUnsupported("Transaction.UpdateRelationship"))
}
func (t *seqTx) Raw(string, map[string]any) graph.Result { panic(seqUnsupported("Transaction.Raw")) }
func (t *seqTx) Query(string, map[string]any) graph.Result {
	panic(seqUnsupported("Transaction.Query"))
}
func (t *seqTx) Commit() error { panic(seqUnsupported("Transaction.Commit")) }

// seqRelQuery ---------------------------------------------------------------------------------------------------------

type seqRelQuery struct {
	w        *seqWorld
	criteria []cypher.Expression
	ordered  bool
}

func (q *seqRelQuery) Filter(criteria graph.Criteria) graph.RelationshipQuery {
	q.criteria = append(q.criteria, seqNormalize(criteria))
	return q
}

func (q *seqRelQuery) Filterf(criteriaDelegate graph.CriteriaProvider) graph.RelationshipQuery {
	return q.Filter(criteriaDelegate())
}

// OrderBy accepts the one ordering the helpers ask for: the relationship (or its id), ascending.
func (q *seqRelQuery) OrderBy(criteria ...graph.Criteria) graph.RelationshipQuery {
	if len(criteria) != 1 {
		panic(seqUnsupported(fmt.Sprintf("RelationshipQuery.OrderBy with %d items", len(criteria))))
	}
	item, ok := criteria[0].(*cypher.SortItem)
	if !ok || !item.Ascending {
		panic(seqUnsupported(fmt.Sprintf("RelationshipQuery.OrderBy(%T %+v)", criteria[0], criteria[0])))
	}
	expr := item.Expression
	if f, isFunc := expr.(*cypher.FunctionInvocation); isFunc && f.Name == "id" && len(f.Arguments) == 1 {
		expr = f.Arguments[0]
	}
	if v, isVar := expr.(*cypher.Variable); !isVar || v.Symbol != "r" {
		panic(seqUnsupported(fmt.Sprintf("RelationshipQuery.OrderBy on %T %+v", item.Expression, item.Expression)))
	}
	q.ordered = true
	return q
}

func (q *seqRelQuery) matching() []*gm.Edge {
	q.w.queries++
	if q.ordered {
		q.w.orderedQueries++
	}
	if q.w.queries > seqMaxQueries {
		panic(seqStepBound{q.w.queries})
	}
	var out []*gm.Edge
	for _, e := range q.w.edgesAsc {
		env := cyref.Env{"s": gm.NodeRef{ID: e.Start}, "r": gm.EdgeRef{ID: e.ID}, "e": gm.NodeRef{ID: e.End}}
		selected := true
		for _, c := range q.criteria {
			v, err := q.w.ev.Eval(c, env)
			if err != nil {
				core.Fatalf("seq fake: the reference evaluator cannot evaluate the criteria: %v", err)
			}
			if b, isBool := v.(bool); !isBool || !b {
				selected = false
				break
			}
		}
		if selected {
			out = append(out, e)
		}
	}
	if !q.ordered && q.w.unorderedDesc {
		for i, j := 0, len(out)-1; i < j; i, j = i+1, j-1 {
			out[i], out[j] = out[j], out[i]
		}
	}
	return out
}

func (q *seqRelQuery) FetchDirection(direction graph.Direction, delegate func(cursor graph.Cursor[graph.DirectionalResult]) error) error {
	edges := q.matching()
	c := make(chan graph.DirectionalResult, len(edges))
	for _, e := range edges {
		var node *graph.Node
		switch direction {
		case graph.DirectionInbound:
			node = q.w.node(e.End)
		case graph.DirectionOutbound:
			node = q.w.node(e.Start)
		default:
			return fmt.Errorf("bad direction: %d", direction)
		}
		c <- graph.DirectionalResult{Direction: direction, Relationship: q.w.relationship(e), Node: node}
	}
	close(c)
	return delegate(&seqCursor[graph.DirectionalResult]{c: c})
}

func (q *seqRelQuery) Update(*graph.Properties) error {
	panic(seqUnsupported("RelationshipQuery.Update"))
}
func (q *seqRelQuery) Delete() error { panic(seqUnsupported("RelationshipQuery.Delete")) }
func (q *seqRelQuery) Offset(int) graph.RelationshipQuery {
	panic(seqUnsupported("RelationshipQuery.Offset"))
}
func (q *seqRelQuery) Limit(int) graph.RelationshipQuery {
	panic(seqUnsupported("RelationshipQuery.Limit"))
}
func (q *seqRelQuery) Count() (int64, error) { panic(seqUnsupported("RelationshipQuery.Count")) }
func (q *seqRelQuery) First() (*graph.Relationship, error) {
	panic(seqUnsupported("RelationshipQuery.First"))
}
func (q *seqRelQuery) Query(func(graph.Result) error, ...graph.Criteria) error {
	panic(seqUnsupported("RelationshipQuery.Query"))
}
func (q *seqRelQuery) Fetch(func(graph.Cursor[*graph.Relationship]) error) error {
	panic(seqUnsupported("RelationshipQuery.Fetch"))
}
func (q *seqRelQuery) FetchIDs(func(graph.Cursor[graph.ID]) error) error {
	panic(seqUnsupported("RelationshipQuery.FetchIDs"))
}
func (q *seqRelQuery) FetchTriples(func(graph.Cursor[graph.RelationshipTripleResult]) error) error {
	panic(seqUnsupported("RelationshipQuery.FetchTriples"))
}
func (q *seqRelQuery) FetchAllShortestPaths(func(graph.Cursor[graph.Path]) error) error {
	panic(seqUnsupported("RelationshipQuery.FetchAllShortestPaths"))
}
func (q *seqRelQuery) FetchKinds(func(graph.Cursor[graph.RelationshipKindsResult]) error) error {
	panic(seqUnsupported("RelationshipQuery.FetchKinds"))
}

type seqCursor[T any] struct{ c chan T }

func (c *seqCursor[T]) Chan() chan T { return c.c }
func (c *seqCursor[T]) Close()       {}
func (c *seqCursor[T]) Error() error { return nil }

// seqNormalize copies the criteria the helpers build (conjunctions of `id(s|e) = $id`, `id(s|e) in $ids` and kind
// matchers) and brings parameter values of type graph.ID / []graph.ID into the reference evaluator's value domain
// (int64 / list): cyref.Normalize does not know DAWGS' ID type. Any other expression shape is unsupported.
func seqNormalize(c graph.Criteria) cypher.Expression {
	switch t := c.(type) {
	case *cypher.Conjunction:
		out := make([]cypher.Expression, len(t.Expressions))
		for i, x := range t.Expressions {
			out[i] = seqNormalize(x)
		}
		return cypher.NewConjunction(out...)
	case *cypher.Comparison:
		out := &cypher.Comparison{Left: seqNormalize(t.Left)}
		for _, p := range t.Partials {
			out.Partials = append(out.Partials, &cypher.PartialComparison{Operator: p.Operator, Right: seqNormalize(p.Right)})
		}
		return out
	case *cypher.FunctionInvocation:
		if t.Name != "id" || len(t.Arguments) != 1 {
			panic(seqUnsupported("criteria function " + t.Name))
		}
		return &cypher.FunctionInvocation{Name: t.Name, Arguments: []cypher.Expression{seqNormalize(t.Arguments[0])}}
	case *cypher.Variable:
		return &cypher.Variable{Symbol: t.Symbol}
	case *cypher.KindMatcher:
		return cypher.NewKindMatcher(seqNormalize(t.Reference), t.Kinds, t.IsExclusive)
	case *cypher.Parameter:
		switch v := t.Value.(type) {
		case graph.ID:
			return &cypher.Parameter{Symbol: t.Symbol, Value: int64(v)}
		case []graph.ID:
			list := make([]any, len(v))
			for i, id := range v {
				list[i] = int64(id)
			}
			return &cypher.Parameter{Symbol: t.Symbol, Value: list}
		}
		panic(seqUnsupported(fmt.Sprintf("criteria parameter of type %T", t.Value)))
	}
	panic(seqUnsupported(fmt.Sprintf("criteria node %T", c)))
}
