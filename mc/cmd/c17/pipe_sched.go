//go:build verif_sched

package main

import (
	"context"
	"os"
	"fmt"

	"github.com/specterops/dawgs/util/vchannels" // instrumented copy of util/channels (overlay), package name channels

	"verif/core"
	"verif/sched"
	"verif/shim/vrt"
)

// Pipe scenarios: a producer submits 1..n values to channels.BufferedPipe and closes the writer (or the context is
// cancelled by a third thread); a consumer receives until the pipe ends. Every interleaving and every select choice.
// Oracle: received = submitted prefix, in order, no duplicates; if the writer was closed without cancellation every
// submitted value is delivered; a writer is never blocked while the pipe goroutine is alive and the reader is slow
// (the consumer only starts receiving after the producer finished: "slow reader" scenarios); all goroutines end.

type pipeSpec struct {
	N          int  `json:"n"`
	Cancel     bool `json:"cancel"`
	SlowReader bool `json:"slow_reader"`
}

func (p pipeSpec) name() string {
	return fmt.Sprintf("pipe/n=%d/cancel=%v/slowreader=%v", p.N, p.Cancel, p.SlowReader)
}

func (p pipeSpec) scenario() *sched.Scenario {
	return &sched.Scenario{
		Name: p.name(),
		New: func() (func(s *sched.Scheduler), func(r *sched.Result) (string, *core.Violation)) {
			var (
				submitted    []int
				received     []int
				producerDone bool
				consumerDone bool
				cancelled    bool
			)
			main := func(s *sched.Scheduler) {
				ctx, cancel := vrt.WithCancel(context.Background())
				w, r := channels.BufferedPipe[int](ctx)
				gate := vrt.MakeChan[struct{}](1)
				s.Go("producer", func() {
					for i := 1; i <= p.N; i++ {
						if !channels.Submit(ctx, w, i) {
							break
						}
						submitted = append(submitted, i)
					}
					vrt.Close(w)
					producerDone = true
					vrt.Send(gate, struct{}{})
				})
				s.Go("consumer", func() {
					if p.SlowReader {
						vrt.Recv(gate) // do not read before the producer is completely done
					}
					for {
						v, ok := channels.Receive(ctx, r)
						if !ok {
							break
						}
						received = append(received, v)
					}
					consumerDone = true
				})
				if p.Cancel {
					s.Go("canceller", func() { cancelled = true; cancel() })
				}
			}
			check := func(res *sched.Result) (string, *core.Violation) {
				if res.Outcome == sched.Deadlock {
					if p.SlowReader && !producerDone {
						return "blocked-writer", &core.Violation{Class: "writer-blocked-on-slow-reader", Summary: fmt.Sprintf("the producer is blocked although nobody reads yet: %v", res.Blocked)}
					}
					return "deadlock", &core.Violation{Class: "deadlock", Summary: fmt.Sprintf("deadlock: %v (submitted %v received %v)", res.Blocked, submitted, received)}
				}
				if res.Outcome != sched.Completed {
					return res.Outcome.String(), nil
				}
				if !producerDone || !consumerDone {
					return "incomplete", &core.Violation{Class: "thread-did-not-finish", Summary: "producer or consumer did not finish"}
				}
				for i, v := range received {
					if i >= len(submitted) || submitted[i] != v {
						return "bad", &core.Violation{Class: "pipe-order-or-duplicate", Summary: fmt.Sprintf("received %v is not a prefix of submitted %v", received, submitted)}
					}
				}
				if !cancelled && len(received) != len(submitted) {
					return "lost", &core.Violation{Class: "pipe-value-lost", Summary: fmt.Sprintf("writer closed after submitting %v but only %v was delivered", submitted, received)}
				}
				return fmt.Sprintf("sub=%d recv=%d", len(submitted), len(received)), nil
			}
			return main, check
		},
		AllowDeadlock: true,
		StateCaching:  os.Getenv("VERIF_NOCACHE") == "",
	}
}

func pipeSpecs(tier core.Tier) []pipeSpec {
	maxN := 2
	if tier == core.Thorough {
		maxN = 3
	}
	var out []pipeSpec
	for n := 0; n <= maxN; n++ {
		for _, c := range []bool{false, true} {
			for _, slow := range []bool{false, true} {
				out = append(out, pipeSpec{n, c, slow})
			}
		}
	}
	return out
}

func pipeScenarios(tier core.Tier) []*sched.Scenario {
	var out []*sched.Scenario
	for _, p := range pipeSpecs(tier) {
		out = append(out, p.scenario())
	}
	return out
}

// largeBacklogScenario: one producer submits n values while nobody reads, then the consumer drains. It is executed for
// the non-preemptive schedule family only (bound 0); it exists because "never blocks a writer on a slow reader" also
// has to hold for backlogs far beyond what the exhaustive scenarios build (a high-water mark would only show there).
func largeBacklogScenario(n int) *sched.Scenario {
	sc := pipeSpec{N: n, SlowReader: true}.scenario()
	sc.Name = fmt.Sprintf("pipe/large-backlog/n=%d", n)
	sc.Horizon = 20*n + 1000
	sc.StateCaching = false
	return sc
}
