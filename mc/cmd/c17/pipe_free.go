//go:build !verif_sched

package main

import (
	"verif/core"
	"verif/sched"
)

// The free-running (-race) build has no instrumented copy of util/channels; the pipe is exercised through BreadthFirst.
func pipeScenarios(tier core.Tier) []*sched.Scenario { return nil }

func largeBacklogScenario(n int) *sched.Scenario { return nil }
