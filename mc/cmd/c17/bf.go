package main

import (
	"context"
	"os"
	"errors"
	"fmt"
	"sort"
	"strings"
	"sync"

	"github.com/specterops/dawgs/graph"
	"github.com/specterops/dawgs/ops"
	"github.com/specterops/dawgs/traversal"
	"github.com/specterops/dawgs/util/size"

	"verif/core"
	"verif/sched"
	"verif/shim/vrt"
)

// BreadthFirst scenarios: the real traversal.Traversal.BreadthFirst with W workers over a driver defined by a small
// successor relation, with one optional fault (driver error at a given path, memory limit, parent-context cancel by a
// concurrent thread). Oracle: the multiset of expanded paths equals the sequential expansion (subset, without
// duplicates, when a fault ends the run early); BreadthFirst returns; an injected error comes back wrapped; no
// deadlock, no goroutine left parked, no panic.

type bfSpec struct {
	Shape   string `json:"shape"`
	Workers int    `json:"workers"`
	Fault   string `json:"fault"` // "", "err@<path>", "memlimit", "cancel"
}

func (b bfSpec) name() string { return fmt.Sprintf("bf/%s/W=%d/fault=%s", b.Shape, b.Workers, b.Fault) }

// shapes: successor lists by node id; root is 0
var shapes = map[string]map[int][]int{
	"single":     {},
	"edge":       {0: {1}},
	"fan2":       {0: {1, 2}},
	"chain2":     {0: {1}, 1: {2}},
	"fan2+leaf":  {0: {1, 2}, 1: {3}},
	"fan3":       {0: {1, 2, 3}},
	"chain3":     {0: {1}, 1: {2}, 2: {3}},
	"diamond":    {0: {1, 2}, 1: {3}, 2: {3}},
	"cycle2":     {0: {1}, 1: {0}},
	"cycle+exit": {0: {1}, 1: {0, 2}},
}

var shapeOrder = []string{"single", "edge", "fan2", "chain2", "cycle2", "fan2+leaf", "fan3", "chain3", "diamond", "cycle+exit"}

func pathString(seg *graph.PathSegment) string {
	var ids []string
	for c := seg; c != nil; c = c.Trunk {
		ids = append(ids, c.Node.ID.String())
	}
	for i, j := 0, len(ids)-1; i < j; i, j = i+1, j-1 {
		ids[i], ids[j] = ids[j], ids[i]
	}
	return strings.Join(ids, ">")
}

// sequential expansion of the driver from the root: the reference.
func expectedPaths(succ map[int][]int) []string {
	var out []string
	var rec func(path []int)
	rec = func(path []int) {
		var s []string
		for _, p := range path {
			s = append(s, fmt.Sprint(p))
		}
		out = append(out, strings.Join(s, ">"))
		last := path[len(path)-1]
	next:
		for _, c := range succ[last] {
			for _, p := range path {
				if p == c {
					continue next // cycle: not emitted
				}
			}
			rec(append(append([]int{}, path...), c))
		}
	}
	rec([]int{0})
	sort.Strings(out)
	return out
}

var errInjected = errors.New("injected driver failure")

type fakeTx struct {
	graph.Transaction
	limit size.Size
}

func (t fakeTx) GraphQueryMemoryLimit() size.Size { return t.limit }

type fakeDB struct {
	graph.Database
	limit size.Size
}

func (d fakeDB) ReadTransaction(ctx context.Context, txDelegate graph.TransactionDelegate, options ...graph.TransactionOption) error {
	return txDelegate(fakeTx{limit: d.limit})
}

type bfRun struct {
	spec     bfSpec
	mu       sync.Mutex // harness log only (free-running pass); not a scheduling point
	expanded []string
	returned bool
	err      error
}

// body runs BreadthFirst; spawn starts the canceller thread when the fault plan asks for one.
func (r *bfRun) body(spawn func(func())) {
	succ := shapes[r.spec.Shape]
	nodes := map[int]*graph.Node{}
	node := func(id int) *graph.Node {
		if n, ok := nodes[id]; ok {
			return n
		}
		n := graph.NewNode(graph.ID(id), graph.NewProperties())
		nodes[id] = n
		return n
	}
	for id := 0; id < 5; id++ {
		node(id)
	}
	kind := graph.StringKind("E")
	driver := func(ctx context.Context, tx graph.Transaction, seg *graph.PathSegment) ([]*graph.PathSegment, error) {
		p := pathString(seg)
		r.mu.Lock()
		r.expanded = append(r.expanded, p)
		r.mu.Unlock()
		if r.spec.Fault == "err@"+p {
			return nil, errInjected
		}
		var out []*graph.PathSegment
		for _, c := range succ[int(seg.Node.ID)] {
			next := seg.Descend(nodes[c], graph.NewRelationship(graph.ID(100+10*int(seg.Node.ID)+c), seg.Node.ID, graph.ID(c), graph.NewProperties(), kind))
			if !next.IsCycle() {
				out = append(out, next)
			}
		}
		return out, nil
	}
	db := fakeDB{}
	if r.spec.Fault == "memlimit" {
		db.limit = 1
	}
	ctx := context.Background()
	if r.spec.Fault == "cancel" {
		c, cancel := vrt.WithCancel(context.Background())
		ctx = c
		spawn(func() { cancel() })
	}
	r.err = traversal.New(db, r.spec.Workers).BreadthFirst(ctx, traversal.Plan{Root: nodes[0], Driver: driver})
	r.returned = true
}

func (r *bfRun) judge() (string, *core.Violation) {
	if !r.returned {
		return "not-returned", &core.Violation{Class: "breadthfirst-did-not-return", Summary: "BreadthFirst never returned"}
	}
	want := expectedPaths(shapes[r.spec.Shape])
	got := append([]string{}, r.expanded...)
	sort.Strings(got)
	for i := 1; i < len(got); i++ {
		if got[i] == got[i-1] {
			return "dup", &core.Violation{Class: "segment-expanded-twice", Summary: fmt.Sprintf("path %s was expanded twice (expanded %v)", got[i], got)}
		}
	}
	wantSet := map[string]bool{}
	for _, w := range want {
		wantSet[w] = true
	}
	for _, g := range got {
		if !wantSet[g] {
			return "extra", &core.Violation{Class: "segment-not-in-sequential-expansion", Summary: fmt.Sprintf("path %s is not produced by the sequential expansion %v", g, want)}
		}
	}
	switch {
	case r.spec.Fault == "":
		if r.err != nil {
			return "err", &core.Violation{Class: "unexpected-error", Summary: fmt.Sprintf("BreadthFirst returned %v without any fault", r.err)}
		}
		if len(got) != len(want) {
			return "lost", &core.Violation{Class: "segment-lost", Summary: fmt.Sprintf("expanded %v, sequential expansion gives %v", got, want)}
		}
	case strings.HasPrefix(r.spec.Fault, "err@"):
		reached := false
		for _, g := range got {
			reached = reached || "err@"+g == r.spec.Fault
		}
		if reached && !errors.Is(r.err, errInjected) {
			return "err-lost", &core.Violation{Class: "driver-error-not-returned", Summary: fmt.Sprintf("the driver failed at %s but BreadthFirst returned %v", r.spec.Fault[4:], r.err)}
		}
		if !reached && len(got) != len(want) {
			return "lost", &core.Violation{Class: "segment-lost", Summary: fmt.Sprintf("expanded %v, sequential expansion gives %v", got, want)}
		}
	case r.spec.Fault == "memlimit":
		if !errors.Is(r.err, ops.ErrGraphQueryMemoryLimit) {
			return "mem-err-lost", &core.Violation{Class: "memory-limit-error-not-returned", Summary: fmt.Sprintf("memory limit of 1 byte exceeded but BreadthFirst returned %v", r.err)}
		}
	case r.spec.Fault == "cancel":
		// any return value is acceptable; if the run was not cut short everything must have been expanded
		if r.err == nil && len(got) != len(want) {
			// cancelled early: fine
		}
	}
	return fmt.Sprintf("expanded=%d err=%v", len(got), r.err != nil), nil
}

func (b bfSpec) scenario() *sched.Scenario {
	return &sched.Scenario{
		Name:    b.name(),
		Horizon: 20000,
		New: func() (func(s *sched.Scheduler), func(r *sched.Result) (string, *core.Violation)) {
			r := &bfRun{spec: b}
			main := func(s *sched.Scheduler) {
				r.body(func(f func()) { s.Go("canceller", f) })
			}
			check := func(res *sched.Result) (string, *core.Violation) {
				if res.Outcome == sched.Horizon {
					return "horizon", nil
				}
				if res.Outcome == sched.Deadlock {
					if r.returned {
						return "leak", &core.Violation{Class: "goroutine-left-behind", Summary: fmt.Sprintf("BreadthFirst returned but goroutines stay blocked forever: %v", res.Blocked)}
					}
					return "deadlock", &core.Violation{Class: "deadlock", Summary: fmt.Sprintf("deadlock: %v", res.Blocked)}
				}
				return r.judge()
			}
			return main, check
		},
		AllowDeadlock: true,
		StateCaching:  os.Getenv("VERIF_NOCACHE") == "",
	}
}

func bfSpecs(tier core.Tier) []bfSpec {
	var out []bfSpec
	maxW := 2
	names := shapeOrder[:6]
	if tier == core.Thorough {
		maxW = 3
		names = shapeOrder
	}
	for _, sh := range names {
		faults := []string{"", "memlimit", "cancel"}
		for _, p := range expectedPaths(shapes[sh]) {
			faults = append(faults, "err@"+p)
		}
		for w := 1; w <= maxW; w++ {
			for _, f := range faults {
				out = append(out, bfSpec{Shape: sh, Workers: w, Fault: f})
			}
		}
	}
	return out
}
