package main

import (
	"crypto/sha256"
	"encoding/json"
	"fmt"
	"os"
	"sort"

	"verif/core"
	"verif/enum/graphs"
	"verif/gm"
)

// Exhaustive enumeration of the (graph, plan) space of the sequential helpers. Nothing is sampled: every labelled
// directed multigraph inside the bounds (self loops, parallel and antiparallel edges included; labelled because edge ids
// follow the sorted edge list and id order is what the code under test observes) is combined with every plan below.
//
//	part A  plain graphs (one edge kind, one node kind):
//	        {TraversePaths, AcyclicTraverseNodes(nil filter), AcyclicTraverseTerminals} x root x direction x skip x limit,
//	        Traversal additionally when nothing cyclic is reachable from the root,
//	        pattern driver: every pattern without criterion x root
//	part B  every edge-kind assignment {K1,K2}^edges: the ops helpers with BranchQuery = KindIn(r, K1);
//	        (smaller graphs) every pattern with at least one KindIn criterion
//	part C  every node-kind assignment {A,B}^nodes: AcyclicTraverseNodes and (when nothing cyclic is reachable)
//	        TraverseIntermediaryPaths with the node filter "has kind A"
//	rows of queries without OrderBy come in ascending and in descending id order (both are run); queries with OrderBy
//	are always ascending, so for skip/limit > 0 (where ops.Traversal orders its queries) one order is judged; in part A
//	(and in part C for the all-A assignment) the other order is run as well and must give the same result
//	(row_order_twin).
//	LimitSkipTracker: skip, limit in 0..3 x 0..7 calls.

type seqBounds struct {
	Nodes, Edges               int // parts A and C, patterns without criterion
	KindNodes, KindEdges       int // part B, ops helpers
	PatKindNodes, PatKindEdges int // part B, patterns with a criterion
}

func seqBoundsFor(tier core.Tier) seqBounds {
	if tier == core.Thorough {
		return seqBounds{Nodes: 4, Edges: 4, KindNodes: 4, KindEdges: 3, PatKindNodes: 3, PatKindEdges: 3}
	}
	return seqBounds{Nodes: 3, Edges: 3, KindNodes: 3, KindEdges: 3, PatKindNodes: 3, PatKindEdges: 2}
}

var (
	seqDirections = []string{"outbound", "inbound"}
	seqDepths     = [][2]int{{1, 0}, {1, 1}, {0, 1}, {1, 2}, {2, 2}}
	seqOrders     = []string{"asc", "desc"}
)

// seqPatterns: 1-2 expansions, each Outbound/Inbound x depth x optional criterion. withKind selects the patterns with
// at least one criterion (true) or with none (false).
func seqPatterns(withKind bool) [][]seqExpansion {
	var single []seqExpansion
	for _, d := range seqDirections {
		for _, mm := range seqDepths {
			for _, k := range []string{"", "K1"} {
				single = append(single, seqExpansion{Dir: d, Min: mm[0], Max: mm[1], Kind: k})
			}
		}
	}
	var out [][]seqExpansion
	keep := func(p []seqExpansion) {
		has := false
		for _, ex := range p {
			has = has || ex.Kind != ""
		}
		if has == withKind {
			out = append(out, p)
		}
	}
	for _, a := range single {
		keep([]seqExpansion{a})
	}
	for _, a := range single {
		for _, b := range single {
			keep([]seqExpansion{a, b})
		}
	}
	return out
}

// seqGraph builds the gm graph of a shape: nodes 1..N, edges 11, 12, ... in sorted (start, end) order. Bit i of
// edgeKinds gives edge i the kind K2 instead of K1; bit i of nodeKinds gives node i the kind B instead of A.
func seqGraph(sh graphs.Graph, edgeKinds, nodeKinds uint) gm.Graph {
	g := gm.Graph{}
	for i := 0; i < sh.N; i++ {
		kind := "A"
		if nodeKinds&(1<<uint(i)) != 0 {
			kind = "B"
		}
		g.Nodes = append(g.Nodes, gm.Node{ID: int64(i + 1), Kinds: []string{kind}, Props: map[string]any{}})
	}
	for i, e := range sh.Edges {
		kind := "K1"
		if edgeKinds&(1<<uint(i)) != 0 {
			kind = "K2"
		}
		g.Edges = append(g.Edges, gm.Edge{ID: int64(11 + i), Start: int64(e.U + 1), End: int64(e.V + 1), Kind: kind, Props: map[string]any{}})
	}
	return g
}

// seqEnumerate yields every case of the tier whose shape index belongs to this process. The case handed to yield is
// reused.
func seqEnumerate(tier core.Tier, mine func(k int) bool, yield func(c *seqCase) bool) {
	b := seqBoundsFor(tier)
	plainPatterns, kindPatterns := seqPatterns(false), seqPatterns(true)
	stop := false
	emit := func(c *seqCase) {
		if !stop && !yield(c) {
			stop = true
		}
	}

	// LimitSkipTracker on its own (work item 0)
	if mine(0) {
		for skip := 0; skip <= 3; skip++ {
			for limit := 0; limit <= 3; limit++ {
				for calls := 0; calls <= 7; calls++ {
					emit(&seqCase{Helper: hLimitSkipTracker, Skip: skip, Limit: limit, Calls: calls})
				}
			}
		}
	}

	// ops helpers over one graph: helpers x root x direction x skip x limit x row order
	opsCases := func(g gm.Graph, branchKind, filterKind string, helpers []string, twin bool) {
		for r := range g.Nodes {
			root := g.Nodes[r].ID
			for _, dir := range seqDirections {
				acyclic := refAcyclic(refSteps(&g, dir, branchKind), root)
				for _, h := range helpers {
					if (h == hIntermediaryPaths || h == hTraversal) && !acyclic {
						continue // these two do not guard against cycles and are specified on acyclic graphs only
					}
					fk := filterKind
					if h == hIntermediaryPaths && fk == "" {
						fk = "A" // it needs a filter; on plain graphs every node has kind A
					}
					if h != hIntermediaryPaths && h != hAcyclicNodes {
						fk = ""
					}
					for skip := 0; skip <= 2; skip++ {
						for limit := 0; limit <= 2; limit++ {
							orders := seqOrders
							if skip > 0 || limit > 0 {
								orders = seqOrders[1:] // the queries are ordered; a dropped OrderBy would show as descending rows
							}
							for _, ord := range orders {
								emit(&seqCase{Helper: h, Graph: g, Root: root, Direction: dir, BranchKind: branchKind, NodeFilterKind: fk, Skip: skip, Limit: limit, UnorderedRows: ord,
									RowOrderTwin: twin && (skip > 0 || limit > 0)})
								if stop {
									return
								}
							}
						}
					}
				}
			}
		}
	}
	patternCases := func(g gm.Graph, patterns [][]seqExpansion) {
		for r := range g.Nodes {
			for _, p := range patterns {
				for _, ord := range seqOrders {
					emit(&seqCase{Helper: hPatternDriver, Graph: g, Root: g.Nodes[r].ID, Pattern: p, UnorderedRows: ord})
					if stop {
						return
					}
				}
			}
		}
	}

	maxN, maxE := b.Nodes, b.Edges
	if b.KindNodes > maxN {
		maxN = b.KindNodes
	}
	if b.KindEdges > maxE {
		maxE = b.KindEdges
	}
	graphs.Each(graphs.Options{MinNodes: 1, MaxNodes: maxN, MaxEdges: maxE, SelfLoops: true, Parallel: true}, func(idx int, sh graphs.Graph) bool {
		if !mine(idx + 1) {
			return true
		}
		n, m := sh.N, len(sh.Edges)
		if n <= b.Nodes && m <= b.Edges {
			// part A
			g := seqGraph(sh, 0, 0)
			opsCases(g, "", "", []string{hTraversePaths, hAcyclicNodes, hAcyclicTerminals, hTraversal}, true)
			patternCases(g, plainPatterns)
			// part C
			for nk := uint(0); nk < 1<<uint(n); nk++ {
				opsCases(seqGraph(sh, 0, nk), "", "A", []string{hAcyclicNodes, hIntermediaryPaths}, nk == 0)
			}
		}
		// part B
		for ek := uint(0); ek < 1<<uint(m); ek++ {
			g := seqGraph(sh, ek, 0)
			if n <= b.KindNodes && m <= b.KindEdges {
				opsCases(g, "K1", "", []string{hTraversePaths, hAcyclicNodes, hAcyclicTerminals, hIntermediaryPaths, hTraversal}, false)
			}
			if n <= b.PatKindNodes && m <= b.PatKindEdges {
				patternCases(g, kindPatterns)
			}
		}
		return !stop
	})
}

type seqWitness struct {
	cost int
	v    core.Violation
}

// cost orders failing cases: fewer self loops, fewer edges, fewer nodes, smaller plan first.
func (c *seqCase) cost() int {
	loops := 0
	for _, e := range c.Graph.Edges {
		if e.Start == e.End {
			loops++
		}
	}
	plan := c.Skip + c.Limit + len(c.Pattern) + c.Calls
	if c.BranchKind != "" {
		plan++
	}
	if c.NodeFilterKind != "" {
		plan++
	}
	return ((loops*8+len(c.Graph.Edges))*8+len(c.Graph.Nodes))*64 + plan
}

func (c *seqCase) clone() *seqCase {
	b, err := json.Marshal(c)
	if err != nil {
		core.Fatalf("sequential helpers: %v", err)
	}
	var out seqCase
	if err := json.Unmarshal(b, &out); err != nil {
		core.Fatalf("sequential helpers: %v", err)
	}
	return &out
}

// runSequentialHelpers enumerates this process's share of the cases (run.Mine over shape indexes, so it can be called
// from the forked workers as well as from an unsharded run), executes and judges each of them.
//
// Counters: seq_evaluations (cases executed), seq_distinct_nontrivial (cases in which at least one edge can be followed
// from the root; the enumerator never yields the same (graph, plan) twice - VERIF_SEQ_CHECK_DISTINCT=1 verifies that
// with a hash set), seq_queries (queries the code under test sent to the in-memory transaction), max_seq_queries_per_case,
// seq_violating_cases and
// one counter per helper.
func runSequentialHelpers(run *core.Run) {
	var (
		evaluations, nontrivial, queries int64
		violating, maxQueries            int64
		best                             = map[string]seqWitness{} // per violation class: the simplest failing case
		perHelper                        = map[string]int64{}
		sampled                          = map[string]bool{}
		distinct                         map[[32]byte]bool
	)
	if os.Getenv("VERIF_SEQ_CHECK_DISTINCT") != "" {
		distinct = map[[32]byte]bool{}
	}
	_, _, isWorker := run.Worker()
	seqEnumerate(run.Tier, run.Mine, func(c *seqCase) bool {
		out, ver := c.run()
		evaluations++
		queries += int64(out.Queries)
		if int64(out.Queries) > maxQueries {
			maxQueries = int64(out.Queries)
		}
		perHelper[c.Helper]++
		if ver.Nontrivial {
			nontrivial++
		}
		if distinct != nil {
			h := sha256.Sum256([]byte(c.String()))
			if distinct[h] {
				core.Fatalf("sequential helpers: the enumerator produced the case %s twice", c)
			}
			distinct[h] = true
		}
		if ver.V != nil {
			violating++
			if cur, has := best[ver.V.Class]; !has || c.cost() < cur.cost {
				v := *ver.V
				v.Artefact = c.clone()
				best[ver.V.Class] = seqWitness{cost: c.cost(), v: v}
			}
		} else if ver.Nontrivial && !sampled[c.Helper] && len(c.Graph.Edges) >= 2 && (!isWorker || run.Mine(0)) && len(sampled) < 3 {
			sampled[c.Helper] = true
			run.Sample(map[string]any{"sequential_helper_case": c.clone(), "observed": out, "reference": ver.Reference})
		}
		if evaluations%4096 == 0 && run.TimeUp() {
			run.Capped("deadline (sequential helpers)")
			return false
		}
		return true
	})
	classes := make([]string, 0, len(best))
	for class := range best {
		classes = append(classes, class)
	}
	sort.Strings(classes)
	for _, class := range classes {
		run.Report(best[class].v)
	}
	run.Add("seq_evaluations", evaluations)
	run.Add("seq_violating_cases", violating)
	run.Add("seq_distinct_nontrivial", nontrivial)
	run.Add("seq_queries", queries)
	if maxQueries > run.Get("max_seq_queries_per_case") {
		run.Set("max_seq_queries_per_case", maxQueries)
	}
	for h, n := range perHelper {
		run.Add("seq_cases_"+h, n)
	}
	b := seqBoundsFor(run.Tier)
	run.Set("seq_bounds", fmt.Sprintf("all labelled directed multigraphs with self loops, parallel and antiparallel edges: <=%d nodes/<=%d edges (plain and node-kind graphs, patterns without criterion), <=%d/<=%d (edge-kind graphs, ops helpers with BranchQuery), <=%d/<=%d (edge-kind graphs, patterns with a criterion); every root x direction x skip 0..2 x limit 0..2; patterns of 1-2 expansions, outbound/inbound, depths (1,0) (1,1) (0,1) (1,2) (2,2), optional KindIn criterion; rows of unordered queries ascending and descending; termination bound %d queries per case",
		b.Nodes, b.Edges, b.KindNodes, b.KindEdges, b.PatKindNodes, b.PatKindEdges, seqMaxQueries))
}
