package main

import (
	"fmt"
	"reflect"
	"sort"
	"strings"

	"github.com/specterops/dawgs/cypher/models/pgsql"

	"verif/enum/cyq"
	"verif/xlate"
)

// inventory translates every golden + integration query and counts AST node types, function names, operators and cast
// target types (the measured fragment pgeval has to cover).
func inventory() {
	var (
		nodes   = map[string]int{}
		funcs   = map[string]int{}
		binops  = map[string]int{}
		unops   = map[string]int{}
		casts   = map[string]int{}
		lits    = map[string]int{}
		tables  = map[string]int{}
		joins   = map[string]int{}
		setops  = map[string]int{}
		shapes  = map[string]int{}
		stmts   = map[string]int{}
		total   = 0
		okCount = 0
	)
	var walk func(v reflect.Value, depth int)
	syntaxNode := reflect.TypeOf((*pgsql.SyntaxNode)(nil)).Elem()
	walk = func(v reflect.Value, depth int) {
		if !v.IsValid() || depth > 400 {
			return
		}
		switch v.Kind() {
		case reflect.Interface, reflect.Ptr:
			if v.IsNil() {
				return
			}
			walk(v.Elem(), depth+1)
			return
		}
		if v.Type().Implements(syntaxNode) || reflect.PointerTo(v.Type()).Implements(syntaxNode) {
			name := v.Type().String()
			nodes[name]++
			switch t := v.Interface().(type) {
			case pgsql.FunctionCall:
				key := string(t.Function)
				if t.Distinct {
					key += " DISTINCT"
				}
				if t.Bare {
					key += " BARE"
				}
				if t.Over != nil {
					key += " OVER"
				}
				key += fmt.Sprintf("/%d", len(t.Parameters))
				if t.CastType.IsKnown() {
					key += "::" + string(t.CastType)
				}
				funcs[key]++
			case pgsql.BinaryExpression:
				binops[string(t.Operator)]++
				shape := func(e pgsql.Expression) string {
					if e == nil {
						return "nil"
					}
					return reflect.TypeOf(e).String()
				}
				shapes[string(t.Operator)+" : "+shape(t.LOperand)+" , "+shape(t.ROperand)]++
			case pgsql.UnaryExpression:
				unops[fmt.Sprint(t.Operator)+" : "+reflect.TypeOf(t.Operand).String()]++
			case pgsql.TypeCast:
				casts[string(t.CastType)+" <- "+reflect.TypeOf(t.Expression).String()]++
			case pgsql.Literal:
				lits[fmt.Sprintf("%T/%s null=%v", t.Value, t.CastType, t.Null)]++
			case pgsql.TableReference:
				tables[t.Name.String()]++
			case pgsql.Join:
				joins[fmt.Sprintf("type=%d table=%T on=%v", t.JoinOperator.JoinType, t.Table, t.JoinOperator.Constraint != nil)]++
			case pgsql.SetOperation:
				setops[fmt.Sprintf("%s all=%v distinct=%v L=%T R=%T", t.Operator, t.All, t.Distinct, t.LOperand, t.ROperand)]++
			case pgsql.Parameter:
				lits["param::"+string(t.CastType)]++
			case pgsql.ArrayLiteral:
				lits[fmt.Sprintf("arraylit::%s n=%d", t.CastType, min(len(t.Values), 3))]++
			case pgsql.CompositeValue:
				lits[fmt.Sprintf("composite::%s n=%d", t.DataType, len(t.Values))]++
			case pgsql.AnyExpression:
				lits[fmt.Sprintf("any(%T)::%s", t.Expression, t.CastType)]++
			case pgsql.AllExpression:
				lits[fmt.Sprintf("all(%T)", t.Expression)]++
			case pgsql.ArrayIndex:
				lits[fmt.Sprintf("index(%T)[%d]::%s", t.Expression, len(t.Indexes), t.CastType)]++
			case pgsql.RowColumnReference:
				lits[fmt.Sprintf("rowcol(%T).%s", t.Identifier, t.Column)]++
			case pgsql.Select:
				lits[fmt.Sprintf("select distinct=%v groupby=%v having=%v from=%d", t.Distinct, len(t.GroupBy) > 0, t.Having != nil, min(len(t.From), 3))]++
			case pgsql.Query:
				lits[fmt.Sprintf("query cte=%v order=%v offset=%v limit=%v body=%T", t.CommonTableExpressions != nil, len(t.OrderBy) > 0, t.Offset != nil, t.Limit != nil, t.Body)]++
			case pgsql.CompoundIdentifier:
				lits[fmt.Sprintf("compound/%d", len(t))]++
			}
		}
		switch v.Kind() {
		case reflect.Struct:
			for i := 0; i < v.NumField(); i++ {
				if v.Type().Field(i).IsExported() {
					walk(v.Field(i), depth+1)
				}
			}
		case reflect.Slice, reflect.Array:
			if v.Type().Elem().Kind() == reflect.String { // CompoundIdentifier etc: count once
				return
			}
			for i := 0; i < v.Len(); i++ {
				walk(v.Index(i), depth+1)
			}
		}
	}
	for _, c := range cyq.TranslationCorpus() {
		total++
		o := xlate.Text(c.Text, xlate.NewMapper().KindMapper, c.Params)
		if !o.OK() {
			continue
		}
		okCount++
		stmts[reflect.TypeOf(o.Result.Statement).String()]++
		walk(reflect.ValueOf(o.Result.Statement), 0)
	}
	fmt.Printf("queries %d translated %d\n", total, okCount)
	dump := func(title string, m map[string]int) {
		type kv struct {
			k string
			v int
		}
		var l []kv
		for k, v := range m {
			l = append(l, kv{k, v})
		}
		sort.Slice(l, func(i, j int) bool {
			if l[i].v != l[j].v {
				return l[i].v > l[j].v
			}
			return l[i].k < l[j].k
		})
		fmt.Printf("\n== %s (%d) ==\n", title, len(l))
		for _, e := range l {
			fmt.Printf("%7d  %s\n", e.v, strings.ReplaceAll(e.k, "pgsql.", ""))
		}
	}
	dump("statements", stmts)
	dump("node types", nodes)
	dump("functions", funcs)
	dump("binary operators", binops)
	dump("binary shapes", shapes)
	dump("unary", unops)
	dump("casts", casts)
	dump("literals & misc", lits)
	dump("tables", tables)
	dump("joins", joins)
	dump("set operations", setops)
}
