// Command conform binds pgeval to real PostgreSQL behaviour: every non-updating case of the DAWGS integration corpus
// (expectations the maintainers verify against live PostgreSQL and Neo4j) is parsed, translated, evaluated by pgeval on
// the case's fixture, and the recorded assertion is checked. A mismatch means pgeval is wrong.
//
//	conform              print the conformance table (exit 1 on any mismatch)
//	conform -v           also list every outside case
//	conform -case substr only cases whose name contains substr; prints SQL and rows
//	conform -inventory   print the construct inventory of all golden + integration translations
package main

import (
	"flag"
	"fmt"
	"os"
	"strings"

	"verif/gm"
	"verif/icorpus"
	"verif/pgeval"
	"verif/pgeval/pgconform"
)

func main() {
	inv := flag.Bool("inventory", false, "print the construct inventory of all golden + integration translations")
	verbose := flag.Bool("v", false, "list outside cases")
	only := flag.String("case", "", "only cases whose name contains this text (prints SQL and rows)")
	gold := flag.Bool("golden", false, "run pgeval over every golden translation case on the base dataset (coverage, no expectations)")
	flag.Parse()
	if *inv {
		inventory()
		return
	}
	if *gold {
		golden(*verbose)
		return
	}
	cases, err := icorpus.Load(icorpus.RepoRoot())
	if err != nil {
		fmt.Fprintln(os.Stderr, "conform:", err)
		os.Exit(2)
	}
	kinds := pgconform.CorpusKinds(cases)
	if *only != "" {
		var sel []*icorpus.Case
		for _, c := range cases {
			if strings.Contains(c.Name, *only) || strings.Contains(c.Cypher, *only) {
				sel = append(sel, c)
			}
		}
		cases = sel
	}
	translatedCount, translateErrors := 0, 0
	precedence := 0
	eval := func(c *icorpus.Case) (*gm.Rows, error) {
		t, err := pgconform.Translate(c, kinds)
		if err != nil {
			translateErrors++
			if *only != "" {
				fmt.Printf("-- %s\n   cypher: %s\n   translation error: %v\n", c.Name, c.Cypher, err)
			}
			return nil, err
		}
		translatedCount++
		ev := pgeval.New(c.Graph, t.KindIDs)
		rows, err := ev.Run(t.Result.Statement, t.Result.Parameters)
		if ev.Info.PrecedenceRewrites > 0 {
			precedence++
			fmt.Printf("note: %s: %d operator sub-expression(s) parse differently from the AST\n   sql: %s\n", c.Name, ev.Info.PrecedenceRewrites, t.SQL)
		}
		if *only != "" {
			fmt.Printf("-- %s\n   cypher: %s\n   params: %v -> %v\n   sql:    %s\n", c.Name, c.Cypher, c.Params, t.Result.Parameters, t.SQL)
			if err != nil {
				fmt.Printf("   error:  %v\n", err)
			} else {
				fmt.Printf("   columns: %v  info: %+v\n", rows.Columns, ev.Info)
				for _, r := range rows.Seq() {
					fmt.Printf("   row: %s\n", r)
				}
			}
			fmt.Printf("   expect: %s\n", func() string {
				if c.Assert != nil {
					return c.Assert.Raw
				}
				return "metamorphic"
			}())
		}
		return rows, err
	}
	rep := icorpus.RunAll(cases, eval)
	fmt.Printf("queries translated %d, translation errors %d (counted as query errors), statements whose text parses differently from the AST %d\n",
		translatedCount, translateErrors, precedence)
	rep.Print(os.Stdout, "pgeval(translate(query)) on the integration corpus", *verbose)
	if rep.Mismatch > 0 {
		os.Exit(1)
	}
}
