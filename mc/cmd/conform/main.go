package main

import (
	"flag"
)

func main() {
	inv := flag.Bool("inventory", false, "print the construct inventory of all golden + integration translations")
	flag.Parse()
	if *inv {
		inventory()
		return
	}
}
