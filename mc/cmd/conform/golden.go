package main

import (
	"fmt"
	"os"
	"sort"
	"strings"

	"verif/enum/cyq"
	"verif/gm"
	"verif/icorpus"
	"verif/pgeval"
	"verif/xlate"
)

// golden runs pgeval over every golden translation case (cypher/models/pgsql/test/translation_cases) on the "base"
// dataset and on a two-node graph. There are no expectations for these: the run measures which constructs of the
// translator's output pgeval evaluates, which it declines, and that it never fails internally.
func golden(verbose bool) {
	cases, err := icorpus.Load(icorpus.RepoRoot())
	if err != nil {
		fmt.Fprintln(os.Stderr, "conform:", err)
		os.Exit(2)
	}
	var base *gm.Graph
	for _, c := range cases {
		if strings.HasSuffix(c.File, "cases/nodes.json") {
			base = c.Graph
			break
		}
	}
	small := &gm.Graph{
		Nodes: []gm.Node{
			{ID: 1, Kinds: []string{"NodeKind1"}, Props: map[string]any{"name": "a", "value": int64(1)}},
			{ID: 2, Kinds: []string{"NodeKind2"}, Props: map[string]any{"name": "b"}},
		},
		Edges: []gm.Edge{{ID: 1, Start: 1, End: 2, Kind: "EdgeKind1", Props: map[string]any{}}, {ID: 2, Start: 2, End: 2, Kind: "EdgeKind2", Props: map[string]any{}}},
	}
	counts := map[string]int{}
	outside := map[string]int{}
	internal := 0
	total := 0
	for _, q := range cyq.TranslationCorpus() {
		if q.Golden == "" {
			continue
		}
		total++
		parsed, err := cyq.Parse(q.Text)
		if err != nil {
			counts["parse error"]++
			continue
		}
		if icorpus.IsUpdating(parsed) {
			counts["updating (skipped)"]++
			continue
		}
		// golden tests put the parameter values into the AST and pass nil parameters
		xlate.SetParameterValues(parsed, q.Params)
		mapper := cyq.KindMapper()
		o := xlate.AST(parsed, mapper, nil)
		if !o.OK() {
			counts["translation "+o.Kind()]++
			continue
		}
		ids := map[string]int16{}
		for k, id := range mapper.KindToID {
			ids[k.String()] = id
		}
		prep, err := pgeval.Prepare(o.Result.Statement)
		if err != nil {
			if pgeval.IsOutside(err) {
				counts["outside (compile)"]++
				outside[err.(pgeval.ErrOutside).What]++
				if verbose {
					fmt.Printf("outside: %s\n   %s\n", err, q.Text)
				}
			} else {
				counts["static error"]++
				fmt.Printf("static error: %v\n   %s\n   %s\n", err, q.Text, o.SQL)
			}
			continue
		}
		status := "evaluated"
		for _, g := range []*gm.Graph{base, small} {
			_, err := prep.Run(pgeval.New(g, ids), o.Result.Parameters)
			switch {
			case err == nil:
			case pgeval.IsOutside(err):
				status = "outside (run)"
				outside[err.(pgeval.ErrOutside).What]++
				if verbose {
					fmt.Printf("outside: %s\n   %s\n", err, q.Text)
				}
			case pgeval.IsRuntime(err):
				if status == "evaluated" {
					status = "run-time error"
				}
				if verbose {
					fmt.Printf("run-time error: %v\n   %s\n   %s\n", err, q.Text, o.SQL)
				}
			default:
				internal++
				status = "INTERNAL"
				fmt.Printf("INTERNAL: %v\n   %s\n   %s\n", err, q.Text, o.SQL)
			}
			if status != "evaluated" && status != "run-time error" {
				break
			}
		}
		counts[status]++
	}
	fmt.Printf("== golden translation cases: %d ==\n", total)
	keys := make([]string, 0, len(counts))
	for k := range counts {
		keys = append(keys, k)
	}
	sort.Strings(keys)
	for _, k := range keys {
		fmt.Printf("  %5d  %s\n", counts[k], k)
	}
	fmt.Println("outside, by construct:")
	keys = keys[:0]
	for k := range outside {
		keys = append(keys, k)
	}
	sort.Slice(keys, func(i, j int) bool { return outside[keys[i]] > outside[keys[j]] })
	for _, k := range keys {
		fmt.Printf("  %5d  %s\n", outside[k], k)
	}
	if internal > 0 {
		os.Exit(1)
	}
}
