// Package vrt puts goroutine creation, channels, select and context cancellation under the controlled scheduler of
// verif/sched. Source files of the explored packages are rewritten onto it by cmd/instrument (-chan):
//
//	go f(x)                      -> vrt.Go(func() { f(x) })            (arguments evaluated first, as Go does)
//	make(chan T, n)              -> vrt.MakeChan[T](n)
//	chan T, <-chan T, chan<- T   -> *vrt.Chan[T]
//	c <- v ; <-c ; v, ok := <-c  -> vrt.Send(c, v) ; vrt.Recv(c) ; vrt.Recv2(c)
//	close(c)                     -> vrt.Close(c)
//	select { ... }               -> switch vrt.Select(cases...) (operands evaluated once at entry)
//	context.WithCancel(p)        -> vrt.WithCancel(p) ; <-ctx.Done() -> receive on vrt.Done(ctx)
//
// CSP semantics are implemented on scheduler state: an unbuffered send fires only against a parked receiver (the later
// arriver commits the rendezvous), a select with several ready cases is a branch point owned by the explorer, nil
// channels never fire, send on / close of a closed channel panics as in Go. Without an active scheduler every operation
// falls back to a native Go channel, so the same build also runs free.
package vrt

import (
	"context"
	"fmt"
	"reflect"
	"sync"

	"verif/sched"
)

type Chan[T any] struct {
	native chan T // native mode (created without a scheduler)
	capa   int
	buf    []T
	closed bool
	hb     sched.HB
}

const (
	dirSend = 1
	dirRecv = 2
)

// pendingCase is attached to a parked thread's alternatives so that partners can find each other.
type pendingCase struct {
	ch    any // *Chan[T]
	dir   int
	value any // for sends
}

type threadCases struct {
	cases []pendingCase
	seq   int
}

type world struct {
	parked map[int]*threadCases // by thread id: the communication cases of its pending op
	seq    int
}

func theWorld(s *sched.Scheduler) *world {
	return s.Local("vrt.world", func() any { return &world{parked: map[int]*threadCases{}} }).(*world)
}

func MakeChan[T any](capacity int) *Chan[T] {
	if s := sched.Current(); s.Active() {
		return &Chan[T]{capa: capacity}
	}
	return &Chan[T]{native: make(chan T, capacity), capa: capacity}
}

func Go(f func()) {
	if s := sched.Current(); s.Active() {
		s.Go("go", f)
		return
	}
	go f()
}

// Case is one select case.
type Case struct {
	dir   int // dirSend / dirRecv / 0 = default
	ch    chanCore
	value any
}

// chanCore is the type-erased view of *Chan[T].
type chanCore interface {
	isNil() bool
	key() any
	canSendNow() bool  // buffered room, or closed (→ panic on commit)
	canRecvNow() bool  // buffered data or closed
	isUnbuffered() bool
	doSend(v any)      // append to buffer, or panic if closed
	doRecv() (any, bool)
	nativeValue() reflect.Value
	zero() any
	cell() *sched.HB
}

func (c *Chan[T]) isNil() bool       { return c == nil }
func (c *Chan[T]) key() any          { return c }
func (c *Chan[T]) isUnbuffered() bool { return c.capa == 0 }
func (c *Chan[T]) canSendNow() bool  { return c.closed || (c.capa > 0 && len(c.buf) < c.capa) }
func (c *Chan[T]) canRecvNow() bool  { return len(c.buf) > 0 || c.closed }
func (c *Chan[T]) doSend(v any) {
	if c.closed {
		panic("send on closed channel")
	}
	c.buf = append(c.buf, v.(T))
}
func (c *Chan[T]) doRecv() (any, bool) {
	if len(c.buf) > 0 {
		v := c.buf[0]
		c.buf = c.buf[1:]
		return v, true
	}
	var z T
	return z, false // closed and drained
}
func (c *Chan[T]) nativeValue() reflect.Value { return reflect.ValueOf(c.native) }
func (c *Chan[T]) zero() any                  { var z T; return z }
func (c *Chan[T]) cell() *sched.HB            { return &c.hb }

func SendCase[T any](c *Chan[T], v T) Case { return Case{dir: dirSend, ch: c, value: v} }
func RecvCase[T any](c *Chan[T]) Case      { return Case{dir: dirRecv, ch: c} }
func DefaultCase() Case                    { return Case{} }

// Sel is the outcome of a select.
type Sel struct {
	Index int
	value any
	ok    bool
}

// Got returns what a receive case received; c is only used to fix the type.
func Got[T any](c *Chan[T], r Sel) (T, bool) {
	if r.value == nil {
		var z T
		return z, r.ok
	}
	return r.value.(T), r.ok
}

func Select(cases ...Case) Sel {
	s := sched.Current()
	if !s.Active() {
		if s != nil {
			// tearing down: never block
			return Sel{Index: 0}
		}
		return nativeSelect(cases)
	}
	w := theWorld(s)
	me := s.ThreadID()
	tc := &threadCases{}
	w.seq++
	tc.seq = w.seq
	defIdx := -1
	op := &sched.Op{Desc: describe(s, cases), Code: 50}
	for i, c := range cases {
		i, c := i, c
		if c.dir == 0 {
			defIdx = i
			tc.cases = append(tc.cases, pendingCase{})
			op.Alts = append(op.Alts, sched.Alt{}) // filled below
			continue
		}
		if c.ch.isNil() {
			tc.cases = append(tc.cases, pendingCase{})
			op.Alts = append(op.Alts, sched.Alt{Enabled: func() bool { return false }})
			continue
		}
		tc.cases = append(tc.cases, pendingCase{ch: c.ch.key(), dir: c.dir, value: c.value})
		if c.ch.isUnbuffered() {
			want := dirRecv
			if c.dir == dirRecv {
				want = dirSend
			}
			op.Alts = append(op.Alts, sched.Alt{HB: c.ch.cell(), Partners: func() []int {
				var ps []int
				closedReady := c.ch.canSendNow() && c.dir == dirSend || c.ch.canRecvNow() && c.dir == dirRecv
				if closedReady {
					ps = append(ps, -1) // closed channel: fires without a partner
				}
				for tid := 0; tid < s.NumThreads(); tid++ {
					if tid == me || s.PendingOf(tid) == nil {
						continue
					}
					other := w.parked[tid]
					if other == nil || other.seq > tc.seq {
						continue // the later arriver commits
					}
					for _, pc := range other.cases {
						if pc.ch == c.ch.key() && pc.dir == want {
							ps = append(ps, tid)
							break
						}
					}
				}
				return ps
			}})
		} else if c.dir == dirSend {
			op.Alts = append(op.Alts, sched.Alt{Enabled: c.ch.canSendNow, HB: c.ch.cell()})
		} else {
			op.Alts = append(op.Alts, sched.Alt{Enabled: c.ch.canRecvNow, HB: c.ch.cell()})
		}
	}
	if defIdx >= 0 {
		alts := op.Alts
		var reads []*sched.HB
		for _, c := range cases {
			if c.dir != 0 && !c.ch.isNil() {
				reads = append(reads, c.ch.cell())
			}
		}
		op.Alts[defIdx] = sched.Alt{Reads: reads, Enabled: func() bool {
			for i, a := range alts {
				if i == defIdx {
					continue
				}
				if a.Partners != nil {
					if len(a.Partners()) > 0 {
						return false
					}
				} else if a.Enabled() {
					return false
				}
			}
			return true
		}}
	}
	w.parked[me] = tc
	ch := s.Park(op)
	delete(w.parked, me)
	c := cases[ch.Alt]
	switch {
	case ch.Resolved: // a partner completed the rendezvous for us
		return Sel{Index: ch.Alt, value: ch.Value, ok: ch.ValueOK}
	case c.dir == 0:
		return Sel{Index: ch.Alt}
	case ch.Partner >= 0: // we commit the rendezvous with a parked partner
		other := w.parked[ch.Partner]
		for j, pc := range other.cases {
			if pc.ch == c.ch.key() && pc.dir != c.dir && pc.dir != 0 {
				delete(w.parked, ch.Partner)
				if c.dir == dirSend {
					s.Resolve(ch.Partner, j, c.value, true)
					return Sel{Index: ch.Alt}
				}
				s.Resolve(ch.Partner, j, nil, true)
				return Sel{Index: ch.Alt, value: pc.value, ok: true}
			}
		}
		panic("vrt: rendezvous partner vanished")
	case c.dir == dirSend:
		c.ch.doSend(c.value)
		return Sel{Index: ch.Alt}
	default:
		v, ok := c.ch.doRecv()
		return Sel{Index: ch.Alt, value: v, ok: ok}
	}
}

func describe(s *sched.Scheduler, cases []Case) string {
	d := "select{"
	if len(cases) == 1 {
		d = "chan{"
	}
	for i, c := range cases {
		if i > 0 {
			d += ","
		}
		switch {
		case c.dir == 0:
			d += "default"
		case c.ch.isNil():
			d += "nil"
		case c.dir == dirSend:
			d += "send " + s.ObjName(c.ch.key())
		default:
			d += "recv " + s.ObjName(c.ch.key())
		}
	}
	return d + "}"
}

func nativeSelect(cases []Case) Sel {
	rc := make([]reflect.SelectCase, len(cases))
	for i, c := range cases {
		switch {
		case c.dir == 0:
			rc[i] = reflect.SelectCase{Dir: reflect.SelectDefault}
		case c.ch.isNil():
			rc[i] = reflect.SelectCase{Dir: reflect.SelectRecv} // nil channel: never ready
		case c.dir == dirSend:
			rc[i] = reflect.SelectCase{Dir: reflect.SelectSend, Chan: c.ch.nativeValue(), Send: reflect.ValueOf(c.value)}
			if c.value == nil {
				rc[i].Send = reflect.Zero(c.ch.nativeValue().Type().Elem())
			}
		default:
			rc[i] = reflect.SelectCase{Dir: reflect.SelectRecv, Chan: c.ch.nativeValue()}
		}
	}
	i, v, ok := reflect.Select(rc)
	if cases[i].dir == dirRecv {
		if ok {
			return Sel{Index: i, value: v.Interface(), ok: true}
		}
		return Sel{Index: i, value: cases[i].ch.zero(), ok: false}
	}
	return Sel{Index: i}
}

func Send[T any](c *Chan[T], v T) {
	if s := sched.Current(); s == nil && c != nil {
		c.native <- v
		return
	}
	Select(SendCase(c, v))
}

func Recv[T any](c *Chan[T]) T {
	v, _ := Recv2(c)
	return v
}

func Recv2[T any](c *Chan[T]) (T, bool) {
	if s := sched.Current(); s == nil && c != nil {
		v, ok := <-c.native
		return v, ok
	}
	return Got(c, Select(RecvCase(c)))
}

func Close[T any](c *Chan[T]) {
	s := sched.Current()
	if s == nil {
		close(c.native)
		return
	}
	if !s.Active() {
		c.closed = true
		return
	}
	s.YieldOn("close "+s.ObjName(c), &c.hb, 51)
	if c.closed {
		panic("close of closed channel")
	}
	c.closed = true
}

func Len[T any](c *Chan[T]) int {
	if c.native != nil {
		return len(c.native)
	}
	return len(c.buf)
}

// ---- context ---------------------------------------------------------------------------------------------------------

type ctxKey struct{}

type vctx struct {
	context.Context
	mu       sync.Mutex
	done     *Chan[struct{}]
	native   chan struct{}
	err      error
	children []*vctx
}

func (c *vctx) Value(key any) any {
	if _, ok := key.(ctxKey); ok {
		return c
	}
	return c.Context.Value(key)
}

func (c *vctx) Done() <-chan struct{} { return c.native }

func (c *vctx) Err() error {
	if s := sched.Current(); s.Active() {
		s.YieldOn("ctx.Err", &c.done.hb, 52)
	}
	c.mu.Lock()
	defer c.mu.Unlock()
	return c.err
}

func (c *vctx) cancel(err error) {
	c.mu.Lock()
	if c.err != nil {
		c.mu.Unlock()
		return
	}
	c.err = err
	kids := c.children
	c.mu.Unlock()
	close(c.native)
	if c.done.native != nil {
		close(c.done.native)
	} else {
		c.done.closed = true
		sched.Current().Touch(&c.done.hb, 53)
	}
	for _, k := range kids {
		k.cancel(err)
	}
}

// WithCancel mirrors context.WithCancel. The returned context is a real context.Context (its native Done channel is
// closed on cancel too, for code that was not rewritten) and additionally carries a scheduler-visible done channel.
func WithCancel(parent context.Context) (context.Context, context.CancelFunc) {
	c := &vctx{Context: parent, done: MakeChan[struct{}](0), native: make(chan struct{})}
	if p, ok := parent.Value(ctxKey{}).(*vctx); ok {
		p.mu.Lock()
		perr := p.err
		if perr == nil {
			p.children = append(p.children, c)
		}
		p.mu.Unlock()
		if perr != nil {
			c.cancel(perr)
		}
	} else if parent.Done() != nil {
		// a native cancellable parent outside the scheduler's view: propagate natively (free-running mode only)
		if s := sched.Current(); s == nil {
			go func() {
				select {
				case <-parent.Done():
					c.cancel(parent.Err())
				case <-c.native:
				}
			}()
		}
	}
	return c, func() {
		if s := sched.Current(); s.Active() {
			s.YieldOn("cancel", &c.done.hb, 54)
		}
		c.cancel(context.Canceled)
	}
}

// Done returns the scheduler-visible done channel of ctx (nil, i.e. never ready, for contexts that cannot be cancelled).
func Done(ctx context.Context) *Chan[struct{}] {
	if c, ok := ctx.Value(ctxKey{}).(*vctx); ok {
		return c.done
	}
	if ctx.Done() == nil {
		return nil
	}
	if s := sched.Current(); s.Active() {
		panic(fmt.Sprintf("vrt.Done: context %T is cancellable but was not created through vrt.WithCancel", ctx))
	}
	// free-running: adapt the native done channel
	c := &Chan[struct{}]{native: make(chan struct{})}
	go func() { <-ctx.Done(); close(c.native) }()
	return c
}
