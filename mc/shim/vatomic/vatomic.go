// Package vatomic mirrors the typed values of sync/atomic. Under an active scheduler every operation is preceded by a
// scheduling point (atomics are where lock-free code interleaves); otherwise it forwards to sync/atomic.
package vatomic

import (
	"sync/atomic"

	"verif/sched"
)

func pointOn(desc string, cell *sched.HB, code uint64) {
	if s := sched.Current(); s.Active() {
		s.YieldOn(desc, cell, code)
	}
}

// point is used by the function forms (no place for a cell inside the variable): one cell per address and execution.
func point(desc string, obj any) {
	if s := sched.Current(); s.Active() {
		cells := s.Local("vatomic.cells", func() any { return map[any]*sched.HB{} }).(map[any]*sched.HB)
		c := cells[obj]
		if c == nil {
			c = &sched.HB{}
			cells[obj] = c
		}
		s.YieldOn(desc, c, 99)
	}
}

type Int64 struct {
	v  atomic.Int64
	hb sched.HB
}

func (x *Int64) Load() int64           { pointOn("atomic.Int64.Load", &x.hb, 40); return x.v.Load() }
func (x *Int64) Store(v int64)         { pointOn("atomic.Int64.Store", &x.hb, 41); x.v.Store(v) }
func (x *Int64) Add(d int64) int64     { pointOn("atomic.Int64.Add", &x.hb, 42); return x.v.Add(d) }
func (x *Int64) Swap(v int64) int64    { pointOn("atomic.Int64.Swap", &x.hb, 43); return x.v.Swap(v) }
func (x *Int64) CompareAndSwap(o, n int64) bool {
	pointOn("atomic.Int64.CompareAndSwap", &x.hb, 44)
	return x.v.CompareAndSwap(o, n)
}

type Int32 struct {
	v  atomic.Int32
	hb sched.HB
}

func (x *Int32) Load() int32           { pointOn("atomic.Int32.Load", &x.hb, 40); return x.v.Load() }
func (x *Int32) Store(v int32)         { pointOn("atomic.Int32.Store", &x.hb, 41); x.v.Store(v) }
func (x *Int32) Add(d int32) int32     { pointOn("atomic.Int32.Add", &x.hb, 42); return x.v.Add(d) }
func (x *Int32) Swap(v int32) int32    { pointOn("atomic.Int32.Swap", &x.hb, 43); return x.v.Swap(v) }
func (x *Int32) CompareAndSwap(o, n int32) bool {
	pointOn("atomic.Int32.CompareAndSwap", &x.hb, 44)
	return x.v.CompareAndSwap(o, n)
}

type Uint64 struct {
	v  atomic.Uint64
	hb sched.HB
}

func (x *Uint64) Load() uint64          { pointOn("atomic.Uint64.Load", &x.hb, 40); return x.v.Load() }
func (x *Uint64) Store(v uint64)        { pointOn("atomic.Uint64.Store", &x.hb, 41); x.v.Store(v) }
func (x *Uint64) Add(d uint64) uint64   { pointOn("atomic.Uint64.Add", &x.hb, 42); return x.v.Add(d) }
func (x *Uint64) Swap(v uint64) uint64  { pointOn("atomic.Uint64.Swap", &x.hb, 43); return x.v.Swap(v) }
func (x *Uint64) CompareAndSwap(o, n uint64) bool {
	pointOn("atomic.Uint64.CompareAndSwap", &x.hb, 44)
	return x.v.CompareAndSwap(o, n)
}

type Uint32 struct {
	v  atomic.Uint32
	hb sched.HB
}

func (x *Uint32) Load() uint32          { pointOn("atomic.Uint32.Load", &x.hb, 40); return x.v.Load() }
func (x *Uint32) Store(v uint32)        { pointOn("atomic.Uint32.Store", &x.hb, 41); x.v.Store(v) }
func (x *Uint32) Add(d uint32) uint32   { pointOn("atomic.Uint32.Add", &x.hb, 42); return x.v.Add(d) }
func (x *Uint32) Swap(v uint32) uint32  { pointOn("atomic.Uint32.Swap", &x.hb, 43); return x.v.Swap(v) }
func (x *Uint32) CompareAndSwap(o, n uint32) bool {
	pointOn("atomic.Uint32.CompareAndSwap", &x.hb, 44)
	return x.v.CompareAndSwap(o, n)
}

type Bool struct {
	v  atomic.Bool
	hb sched.HB
}

func (x *Bool) Load() bool         { pointOn("atomic.Bool.Load", &x.hb, 40); return x.v.Load() }
func (x *Bool) Store(v bool)       { pointOn("atomic.Bool.Store", &x.hb, 41); x.v.Store(v) }
func (x *Bool) Swap(v bool) bool   { pointOn("atomic.Bool.Swap", &x.hb, 43); return x.v.Swap(v) }
func (x *Bool) CompareAndSwap(o, n bool) bool {
	pointOn("atomic.Bool.CompareAndSwap", &x.hb, 44)
	return x.v.CompareAndSwap(o, n)
}

type Pointer[T any] struct {
	v  atomic.Pointer[T]
	hb sched.HB
}

func (x *Pointer[T]) Load() *T         { pointOn("atomic.Pointer.Load", &x.hb, 40); return x.v.Load() }
func (x *Pointer[T]) Store(v *T)       { pointOn("atomic.Pointer.Store", &x.hb, 41); x.v.Store(v) }
func (x *Pointer[T]) Swap(v *T) *T     { pointOn("atomic.Pointer.Swap", &x.hb, 43); return x.v.Swap(v) }
func (x *Pointer[T]) CompareAndSwap(o, n *T) bool {
	pointOn("atomic.Pointer.CompareAndSwap", &x.hb, 44)
	return x.v.CompareAndSwap(o, n)
}

type Value struct {
	v  atomic.Value
	hb sched.HB
}

func (x *Value) Load() any        { pointOn("atomic.Value.Load", &x.hb, 40); return x.v.Load() }
func (x *Value) Store(v any)      { pointOn("atomic.Value.Store", &x.hb, 41); x.v.Store(v) }

func AddInt64(addr *int64, d int64) int64    { point("atomic.AddInt64", addr); return atomic.AddInt64(addr, d) }
func LoadInt64(addr *int64) int64            { point("atomic.LoadInt64", addr); return atomic.LoadInt64(addr) }
func StoreInt64(addr *int64, v int64)        { point("atomic.StoreInt64", addr); atomic.StoreInt64(addr, v) }
func AddInt32(addr *int32, d int32) int32    { point("atomic.AddInt32", addr); return atomic.AddInt32(addr, d) }
func LoadInt32(addr *int32) int32            { point("atomic.LoadInt32", addr); return atomic.LoadInt32(addr) }
func StoreInt32(addr *int32, v int32)        { point("atomic.StoreInt32", addr); atomic.StoreInt32(addr, v) }
func AddUint64(addr *uint64, d uint64) uint64 { point("atomic.AddUint64", addr); return atomic.AddUint64(addr, d) }
func LoadUint64(addr *uint64) uint64          { point("atomic.LoadUint64", addr); return atomic.LoadUint64(addr) }
func CompareAndSwapInt64(addr *int64, o, n int64) bool {
	point("atomic.CompareAndSwapInt64", addr)
	return atomic.CompareAndSwapInt64(addr, o, n)
}
func CompareAndSwapUint64(addr *uint64, o, n uint64) bool {
	point("atomic.CompareAndSwapUint64", addr)
	return atomic.CompareAndSwapUint64(addr, o, n)
}
