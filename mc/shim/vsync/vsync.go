// Package vsync mirrors the parts of package sync the explored DAWGS packages use. Under an active scheduler
// (sched.Current() != nil) blocking operations become scheduling points decided by the explorer; otherwise every type
// behaves exactly like its sync counterpart (it embeds one).
package vsync

import (
	"fmt"
	"sync"

	"verif/sched"
)

type Locker = sync.Locker
type Pool = sync.Pool
type Map = sync.Map

// Mutex ------------------------------------------------------------------------------------------------------------------

type Mutex struct {
	native sync.Mutex
	locked bool
	owner  int
	hb     sched.HB
}

func (m *Mutex) Lock() {
	s := sched.Current()
	if s == nil {
		m.native.Lock()
		return
	}
	if !s.Active() { // tearing down: never block
		return
	}
	s.Park(&sched.Op{Desc: "Mutex.Lock " + s.ObjName(m), Object: m, Code: 1, Alts: []sched.Alt{{Enabled: func() bool { return !m.locked }, HB: &m.hb}}})
	m.locked, m.owner = true, s.ThreadID()
}

func (m *Mutex) TryLock() bool {
	s := sched.Current()
	if s == nil {
		return m.native.TryLock()
	}
	if !s.Active() {
		return true
	}
	s.YieldOn("Mutex.TryLock "+s.ObjName(m), &m.hb, 2)
	if m.locked {
		return false
	}
	m.locked, m.owner = true, s.ThreadID()
	return true
}

func (m *Mutex) Unlock() {
	s := sched.Current()
	if s == nil {
		m.native.Unlock()
		return
	}
	if !s.Active() { // tearing down: deferred unlocks must be harmless
		m.locked = false
		return
	}
	if !m.locked {
		panic("sync: unlock of unlocked mutex")
	}
	m.locked = false
	s.Touch(&m.hb, 3)
}

// RWMutex ----------------------------------------------------------------------------------------------------------------

type RWMutex struct {
	native  sync.RWMutex
	writer  bool
	readers int
	// writersWaiting models Go's writer preference: a pending Lock blocks new readers.
	writersWaiting int
	hb             sched.HB
}

func (m *RWMutex) Lock() {
	s := sched.Current()
	if s == nil {
		m.native.Lock()
		return
	}
	if !s.Active() { // tearing down: never block
		return
	}
	m.writersWaiting++
	s.Park(&sched.Op{Desc: "RWMutex.Lock " + s.ObjName(m), Object: m, Code: 4, Alts: []sched.Alt{{Enabled: func() bool { return !m.writer && m.readers == 0 }, HB: &m.hb}}})
	m.writersWaiting--
	m.writer = true
}

func (m *RWMutex) Unlock() {
	s := sched.Current()
	if s == nil {
		m.native.Unlock()
		return
	}
	if !s.Active() {
		m.writer = false
		return
	}
	if !m.writer {
		panic("sync: Unlock of unlocked RWMutex")
	}
	m.writer = false
	s.Touch(&m.hb, 5)
}

func (m *RWMutex) RLock() {
	s := sched.Current()
	if s == nil {
		m.native.RLock()
		return
	}
	if !s.Active() { // tearing down: never block
		return
	}
	// Go blocks new readers while a writer is waiting. The explorer covers both orders anyway because the writer's
	// Lock is itself a scheduling point; modelling the preference only removes schedules Go cannot produce... it
	// could also hide schedules Go *can* produce (reader arrives before the writer announces itself), so readers are
	// only blocked by a writer that holds the lock.
	s.Park(&sched.Op{Desc: "RWMutex.RLock " + s.ObjName(m), Object: m, Code: 6, Alts: []sched.Alt{{Enabled: func() bool { return !m.writer }, HB: &m.hb}}})
	m.readers++
}

func (m *RWMutex) RUnlock() {
	s := sched.Current()
	if s == nil {
		m.native.RUnlock()
		return
	}
	if !s.Active() {
		if m.readers > 0 {
			m.readers--
		}
		return
	}
	if m.readers <= 0 {
		panic("sync: RUnlock of unlocked RWMutex")
	}
	m.readers--
	s.Touch(&m.hb, 7)
}

func (m *RWMutex) TryLock() bool {
	s := sched.Current()
	if s == nil {
		return m.native.TryLock()
	}
	if !s.Active() {
		return true
	}
	s.YieldOn("RWMutex.TryLock", &m.hb, 8)
	if m.writer || m.readers > 0 {
		return false
	}
	m.writer = true
	return true
}

func (m *RWMutex) TryRLock() bool {
	s := sched.Current()
	if s == nil {
		return m.native.TryRLock()
	}
	if !s.Active() {
		return true
	}
	s.YieldOn("RWMutex.TryRLock", &m.hb, 9)
	if m.writer {
		return false
	}
	m.readers++
	return true
}

func (m *RWMutex) RLocker() Locker { return (*rlocker)(m) }

type rlocker RWMutex

func (r *rlocker) Lock()   { (*RWMutex)(r).RLock() }
func (r *rlocker) Unlock() { (*RWMutex)(r).RUnlock() }

// WaitGroup --------------------------------------------------------------------------------------------------------------

type WaitGroup struct {
	native sync.WaitGroup
	n      int
	hb     sched.HB
}

func (w *WaitGroup) Add(delta int) {
	s := sched.Current()
	if s == nil {
		w.native.Add(delta)
		return
	}
	if !s.Active() {
		return
	}
	s.YieldOn(fmt.Sprintf("WaitGroup.Add(%d) %s", delta, s.ObjName(w)), &w.hb, 10+uint64(int64(delta)+8)%16)
	w.n += delta
	if w.n < 0 {
		panic("sync: negative WaitGroup counter")
	}
}

func (w *WaitGroup) Done() { w.Add(-1) }

func (w *WaitGroup) Go(f func()) {
	s := sched.Current()
	if s == nil {
		w.native.Go(f)
		return
	}
	w.Add(1)
	s.Go("wg.Go", func() {
		defer w.Done()
		f()
	})
}

func (w *WaitGroup) Wait() {
	s := sched.Current()
	if !s.Active() {
		if s == nil {
			w.native.Wait()
		}
		return
	}
	s.Park(&sched.Op{Desc: "WaitGroup.Wait " + s.ObjName(w), Object: w, Code: 30, Alts: []sched.Alt{{Enabled: func() bool { return w.n == 0 }, HB: &w.hb}}})
}

// Once -------------------------------------------------------------------------------------------------------------------

type Once struct {
	native sync.Once
	m      Mutex
	done   bool
}

func (o *Once) Do(f func()) {
	s := sched.Current()
	if s == nil {
		o.native.Do(f)
		return
	}
	if !s.Active() {
		return
	}
	o.m.Lock()
	defer o.m.Unlock()
	if !o.done {
		defer func() { o.done = true }()
		f()
	}
}

func OnceFunc(f func()) func() {
	var o Once
	return func() { o.Do(f) }
}
