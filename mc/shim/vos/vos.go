// Package vos mirrors the parts of package os that the explored DAWGS packages (retriever) use. The instrumenter rewrites
// `import "os"` to this package (keeping the identifier `os`), so every file-system call of the code under test passes
// through here.
//
// With no session active every function forwards to package os unchanged. Inside a session (Run) every call that touches
// the file system - including File.Read/Write/Close/Stat/Sync - gets the next call index, shared with the database calls
// of verif/fakedb (DBPoint). A fault plan {K, Mode, Arg} is executed when call K is reached:
//
//	crash-before  the call is not performed and the process "dies"
//	crash-after   the call is performed, then the process dies
//	torn          (writes) a strict prefix of Arg bytes is written, then the process dies;
//	              (database fetch) Arg records are delivered, then the process dies
//	error         the call fails with EIO and the code continues; for writes Arg bytes are written first, for a
//	              database fetch Arg records are delivered first
//
// Dying = the shim goes dead and panics with Crash. Once dead, every later call fails without any effect, so deferred
// clean-ups that run while the panic unwinds (or code on other goroutines) cannot touch the disk: that is what a killed
// process looks like. Mutating calls whose path lies outside the session's guard root are never performed; they are
// recorded as escapes.
package vos

import (
	"errors"
	"io/fs"
	"os"
	"path/filepath"
	"runtime"
	"strings"
	"sync"
	"syscall"
	"time"
)

// Mirrored constants, variables and types --------------------------------------------------------------------------------

const (
	O_RDONLY = os.O_RDONLY
	O_WRONLY = os.O_WRONLY
	O_RDWR   = os.O_RDWR
	O_APPEND = os.O_APPEND
	O_CREATE = os.O_CREATE
	O_EXCL   = os.O_EXCL
	O_SYNC   = os.O_SYNC
	O_TRUNC  = os.O_TRUNC

	ModeDir        = fs.ModeDir
	ModeAppend     = fs.ModeAppend
	ModeExclusive  = fs.ModeExclusive
	ModeTemporary  = fs.ModeTemporary
	ModeSymlink    = fs.ModeSymlink
	ModeDevice     = fs.ModeDevice
	ModeNamedPipe  = fs.ModeNamedPipe
	ModeSocket     = fs.ModeSocket
	ModeSetuid     = fs.ModeSetuid
	ModeSetgid     = fs.ModeSetgid
	ModeCharDevice = fs.ModeCharDevice
	ModeSticky     = fs.ModeSticky
	ModeIrregular  = fs.ModeIrregular
	ModeType       = fs.ModeType
	ModePerm       = fs.ModePerm

	PathSeparator     = os.PathSeparator
	PathListSeparator = os.PathListSeparator
	DevNull           = os.DevNull
)

var (
	ErrInvalid          = fs.ErrInvalid
	ErrPermission       = fs.ErrPermission
	ErrExist            = fs.ErrExist
	ErrNotExist         = fs.ErrNotExist
	ErrClosed           = fs.ErrClosed
	ErrNoDeadline       = os.ErrNoDeadline
	ErrDeadlineExceeded = os.ErrDeadlineExceeded
	ErrProcessDone      = os.ErrProcessDone

	Args = os.Args

	Stdin  = &File{f: os.Stdin, path: os.Stdin.Name()}
	Stdout = &File{f: os.Stdout, path: os.Stdout.Name()}
	Stderr = &File{f: os.Stderr, path: os.Stderr.Name()}

	Interrupt = os.Interrupt
	Kill      = os.Kill
)

type (
	FileMode     = fs.FileMode
	FileInfo     = fs.FileInfo
	DirEntry     = fs.DirEntry
	PathError    = fs.PathError
	LinkError    = os.LinkError
	SyscallError = os.SyscallError
	Signal       = os.Signal
	Process      = os.Process
	ProcAttr     = os.ProcAttr
)

// Pure helpers (never numbered).
func IsNotExist(err error) bool               { return os.IsNotExist(err) }
func IsExist(err error) bool                  { return os.IsExist(err) }
func IsPermission(err error) bool             { return os.IsPermission(err) }
func IsTimeout(err error) bool                { return os.IsTimeout(err) }
func IsPathSeparator(c uint8) bool            { return os.IsPathSeparator(c) }
func SameFile(a, b FileInfo) bool             { return os.SameFile(a, b) }
func Getpagesize() int                        { return os.Getpagesize() }
func Getenv(k string) string                  { return os.Getenv(k) }
func LookupEnv(k string) (string, bool)       { return os.LookupEnv(k) }
func Setenv(k, v string) error                { return os.Setenv(k, v) }
func Unsetenv(k string) error                 { return os.Unsetenv(k) }
func Environ() []string                       { return os.Environ() }
func ExpandEnv(s string) string               { return os.ExpandEnv(s) }
func TempDir() string                         { return os.TempDir() }
func Getwd() (string, error)                  { return os.Getwd() }
func Getpid() int                             { return os.Getpid() }
func Getuid() int                             { return os.Getuid() }
func Getgid() int                             { return os.Getgid() }
func Geteuid() int                            { return os.Geteuid() }
func Hostname() (string, error)               { return os.Hostname() }
func Executable() (string, error)             { return os.Executable() }
func UserHomeDir() (string, error)            { return os.UserHomeDir() }
func UserCacheDir() (string, error)           { return os.UserCacheDir() }
func UserConfigDir() (string, error)          { return os.UserConfigDir() }
func NewSyscallError(s string, e error) error { return os.NewSyscallError(s, e) }
func Exit(code int)                           { os.Exit(code) }

// Session state ----------------------------------------------------------------------------------------------------------

type Mode string

const (
	CrashBefore Mode = "crash-before"
	CrashAfter  Mode = "crash-after"
	Torn        Mode = "torn"
	Error       Mode = "error"
)

// Half and AllButOne are symbolic Arg values for writes: n/2 and n-1 bytes of the n bytes the faulted call was asked to
// write (n is only known when the call happens; e.g. timestamps make it vary by a byte between runs).
const (
	AllButOne = -1
	Half      = -2
)

func resolve(arg, n int) int {
	switch arg {
	case AllButOne:
		arg = n - 1
	case Half:
		arg = n / 2
	}
	if arg < 0 {
		arg = 0
	}
	return arg
}

// Plan is one fault: when call index K is reached, apply Mode.
type Plan struct {
	K    int  `json:"k"`
	Mode Mode `json:"mode"`
	Arg  int  `json:"arg"`
}

// Event describes one intercepted call.
type Event struct {
	Op   string `json:"op"`
	Path string `json:"path,omitempty"`
	N    int    `json:"n,omitempty"`   // bytes of a write / records available to a fetch
	Mut  bool   `json:"mut,omitempty"` // the call can change the file system
}

// Crash is the panic value that ends a crashed session.
type Crash struct{ K int }

// ErrDead is returned by every call after the crash point.
var ErrDead = errors.New("vos: process is dead (crashed at an injected fault point)")

// EIO is the error of Mode Error.
var EIO error = syscall.EIO

type session struct {
	active  bool
	n       int
	plan    *Plan
	fired   bool
	dead    bool
	crashK  int
	trace   bool
	events  []Event
	root    string
	escapes []string
	owner   string
	open    map[*File]struct{}
}

var (
	mu sync.Mutex
	st session
)

// Result is what a session observed.
type Result struct {
	Calls   int      // number of intercepted calls (file system + database)
	Events  []Event  // when tracing
	Fired   bool     // the plan's call index was reached
	Crashed bool     // the session ended by an injected crash
	Escapes []string // mutating calls outside the guard root (never performed)
	Panic   any      // a panic of the code under test that is not an injected crash
}

// Options of a session.
type Options struct {
	Plan  *Plan
	Trace bool
	Root  string // guard root: mutating calls outside it are refused and recorded
}

func goid() string {
	var buf [64]byte
	n := runtime.Stack(buf[:], false)
	s := string(buf[:n]) // "goroutine 123 [running]:..."
	s = strings.TrimPrefix(s, "goroutine ")
	if i := strings.IndexByte(s, ' '); i >= 0 {
		s = s[:i]
	}
	return s
}

// Run executes f inside a session and returns what was observed. Injected crashes are recovered here.
func Run(o Options, f func()) (res Result) {
	mu.Lock()
	if st.active {
		mu.Unlock()
		panic("vos: nested session")
	}
	st = session{active: true, plan: o.Plan, trace: o.Trace, open: map[*File]struct{}{}, owner: goid()}
	if o.Root != "" {
		st.root = filepath.Clean(o.Root)
	}
	mu.Unlock()

	defer func() {
		p := recover()
		mu.Lock()
		res.Calls = st.n
		res.Events = st.events
		res.Fired = st.fired
		res.Crashed = st.dead
		res.Escapes = st.escapes
		open := st.open
		st = session{}
		mu.Unlock()
		for f := range open {
			_ = f.f.Close() // releasing a descriptor changes nothing on disk
		}
		if p != nil {
			if _, ok := p.(Crash); !ok {
				res.Panic = p
			}
		}
	}()
	f()
	return
}

// Active reports whether a session is running.
func Active() bool {
	mu.Lock()
	defer mu.Unlock()
	return st.active
}

type verdict int

const (
	vPass   verdict = iota // perform normally
	vDead                  // do nothing, return ErrDead
	vRefuse                // outside the guard root: do nothing, return EPERM
	vCrashBefore
	vCrashAfter
	vTorn
	vError
)

// enter numbers the call and decides what happens to it.
func enter(op, path string, n int, mut bool, guarded ...string) (verdict, int) {
	mu.Lock()
	defer mu.Unlock()
	if !st.active {
		return vPass, 0
	}
	if st.dead {
		return vDead, 0
	}
	k := st.n
	st.n++
	if st.trace {
		st.events = append(st.events, Event{Op: op, Path: path, N: n, Mut: mut})
	}
	if mut && st.root != "" {
		for _, p := range append([]string{path}, guarded...) {
			if !inside(st.root, p) {
				st.escapes = append(st.escapes, op+" "+p)
				return vRefuse, 0
			}
		}
	}
	if st.plan != nil && !st.fired && st.plan.K == k {
		st.fired = true
		switch st.plan.Mode {
		case CrashBefore:
			return vCrashBefore, 0
		case CrashAfter:
			return vCrashAfter, 0
		case Torn:
			return vTorn, st.plan.Arg
		case Error:
			return vError, st.plan.Arg
		}
	}
	return vPass, 0
}

func inside(root, p string) bool {
	abs, err := filepath.Abs(p)
	if err != nil {
		return false
	}
	abs = filepath.Clean(abs)
	return abs == root || strings.HasPrefix(abs, root+string(filepath.Separator))
}

// die marks the session dead and unwinds the calling goroutine if it is the session's own.
func die() {
	mu.Lock()
	st.dead = true
	k := st.n - 1
	st.crashK = k
	own := st.owner == goid()
	mu.Unlock()
	if own {
		panic(Crash{K: k})
	}
}

// CrashNow lets the fake database end the session (used for crash points inside a fetch).
func CrashNow() { die() }

// call runs a non-write operation under the fault plan.
func call(op, path string, mut bool, perform func() error, guarded ...string) error {
	v, _ := enter(op, path, 0, mut, guarded...)
	switch v {
	case vPass:
		return perform()
	case vDead:
		return &fs.PathError{Op: op, Path: path, Err: ErrDead}
	case vRefuse:
		return &fs.PathError{Op: op, Path: path, Err: syscall.EPERM}
	case vCrashBefore:
		die()
		return &fs.PathError{Op: op, Path: path, Err: ErrDead}
	case vCrashAfter, vTorn:
		_ = perform()
		die()
		return &fs.PathError{Op: op, Path: path, Err: ErrDead}
	default: // vError
		return &fs.PathError{Op: op, Path: path, Err: EIO}
	}
}

// DBAction tells the fake database what to do with one of its calls.
type DBAction struct {
	Deliver    int   // how many of the n available records to deliver
	Err        error // error to report after the delivered records (nil: none)
	CrashAtEnd bool  // die after the delivered records have been consumed (call CrashNow)
}

// DBPoint numbers one database call in the same sequence as the file-system calls. n is the number of records the
// call would deliver (0 for counts and writes).
func DBPoint(op, detail string, n int) DBAction {
	v, arg := enter(op, detail, n, false)
	switch v {
	case vPass:
		return DBAction{Deliver: n}
	case vDead:
		return DBAction{Err: ErrDead}
	case vCrashBefore:
		die()
		return DBAction{Err: ErrDead}
	case vCrashAfter:
		return DBAction{Deliver: n, CrashAtEnd: true}
	case vTorn:
		if arg > n {
			arg = n
		}
		return DBAction{Deliver: arg, CrashAtEnd: true}
	case vError:
		if arg > n {
			arg = n
		}
		return DBAction{Deliver: arg, Err: EIO}
	}
	return DBAction{Deliver: n}
}

// File -------------------------------------------------------------------------------------------------------------------

// File wraps *os.File so that reads, writes and closes are numbered calls too.
type File struct {
	f    *os.File
	path string
}

func wrap(f *os.File, path string) *File {
	if f == nil {
		return nil
	}
	w := &File{f: f, path: path}
	mu.Lock()
	if st.active {
		st.open[w] = struct{}{}
	}
	mu.Unlock()
	return w
}

func (f *File) forget() {
	mu.Lock()
	if st.active {
		delete(st.open, f)
	}
	mu.Unlock()
}

// Real returns the wrapped file (for harness code only).
func (f *File) Real() *os.File { return f.f }

func (f *File) Name() string { return f.f.Name() }
func (f *File) Fd() uintptr  { return f.f.Fd() }

func (f *File) Write(p []byte) (int, error) {
	v, arg := enter("File.Write", f.path, len(p), true)
	switch v {
	case vPass:
		return f.f.Write(p)
	case vDead:
		return 0, &fs.PathError{Op: "write", Path: f.path, Err: ErrDead}
	case vRefuse:
		return 0, &fs.PathError{Op: "write", Path: f.path, Err: syscall.EPERM}
	case vCrashBefore:
		die()
		return 0, &fs.PathError{Op: "write", Path: f.path, Err: ErrDead}
	case vCrashAfter:
		_, _ = f.f.Write(p)
		die()
		return 0, &fs.PathError{Op: "write", Path: f.path, Err: ErrDead}
	case vTorn:
		arg = resolve(arg, len(p))
		if arg >= len(p) {
			arg = len(p) - 1
		}
		if arg > 0 {
			_, _ = f.f.Write(p[:arg])
		}
		die()
		return 0, &fs.PathError{Op: "write", Path: f.path, Err: ErrDead}
	default: // vError
		arg = resolve(arg, len(p))
		if arg > len(p) {
			arg = len(p)
		}
		n := 0
		if arg > 0 {
			n, _ = f.f.Write(p[:arg])
		}
		return n, &fs.PathError{Op: "write", Path: f.path, Err: EIO}
	}
}

func (f *File) WriteString(s string) (int, error) { return f.Write([]byte(s)) }

func (f *File) Read(p []byte) (n int, err error) {
	e := call("File.Read", f.path, false, func() error { n, err = f.f.Read(p); return nil })
	if e != nil {
		return 0, e
	}
	return n, err
}

func (f *File) ReadAt(p []byte, off int64) (n int, err error) {
	e := call("File.ReadAt", f.path, false, func() error { n, err = f.f.ReadAt(p, off); return nil })
	if e != nil {
		return 0, e
	}
	return n, err
}

func (f *File) WriteAt(p []byte, off int64) (n int, err error) {
	e := call("File.WriteAt", f.path, true, func() error { n, err = f.f.WriteAt(p, off); return nil })
	if e != nil {
		return 0, e
	}
	return n, err
}

func (f *File) Seek(offset int64, whence int) (r int64, err error) {
	e := call("File.Seek", f.path, false, func() error { r, err = f.f.Seek(offset, whence); return nil })
	if e != nil {
		return 0, e
	}
	return r, err
}

func (f *File) Close() error {
	v, _ := enter("File.Close", f.path, 0, true)
	switch v {
	case vPass:
		f.forget()
		return f.f.Close()
	case vDead:
		f.forget()
		_ = f.f.Close() // releases the descriptor only
		return &fs.PathError{Op: "close", Path: f.path, Err: ErrDead}
	case vRefuse:
		f.forget()
		return f.f.Close()
	case vCrashBefore, vCrashAfter, vTorn:
		f.forget()
		_ = f.f.Close()
		die()
		return &fs.PathError{Op: "close", Path: f.path, Err: ErrDead}
	default: // vError: the descriptor is released, the caller sees EIO (as close(2) does)
		f.forget()
		_ = f.f.Close()
		return &fs.PathError{Op: "close", Path: f.path, Err: EIO}
	}
}

func (f *File) Sync() error {
	return call("File.Sync", f.path, true, func() error { return f.f.Sync() })
}

func (f *File) Stat() (fi FileInfo, err error) {
	e := call("File.Stat", f.path, false, func() error { fi, err = f.f.Stat(); return nil })
	if e != nil {
		return nil, e
	}
	return fi, err
}

func (f *File) Truncate(size int64) error {
	return call("File.Truncate", f.path, true, func() error { return f.f.Truncate(size) })
}

func (f *File) Chmod(mode FileMode) error {
	return call("File.Chmod", f.path, true, func() error { return f.f.Chmod(mode) })
}

func (f *File) ReadDir(n int) (d []DirEntry, err error) {
	e := call("File.ReadDir", f.path, false, func() error { d, err = f.f.ReadDir(n); return nil })
	if e != nil {
		return nil, e
	}
	return d, err
}

func (f *File) Readdirnames(n int) (d []string, err error) {
	e := call("File.Readdirnames", f.path, false, func() error { d, err = f.f.Readdirnames(n); return nil })
	if e != nil {
		return nil, e
	}
	return d, err
}

func (f *File) SetDeadline(t time.Time) error { return f.f.SetDeadline(t) }

// Package-level file-system functions ------------------------------------------------------------------------------------

func Stat(name string) (fi FileInfo, err error) {
	e := call("Stat", name, false, func() error { fi, err = os.Stat(name); return nil })
	if e != nil {
		return nil, e
	}
	return fi, err
}

func Lstat(name string) (fi FileInfo, err error) {
	e := call("Lstat", name, false, func() error { fi, err = os.Lstat(name); return nil })
	if e != nil {
		return nil, e
	}
	return fi, err
}

func ReadDir(name string) (d []DirEntry, err error) {
	e := call("ReadDir", name, false, func() error { d, err = os.ReadDir(name); return nil })
	if e != nil {
		return nil, e
	}
	return d, err
}

func ReadFile(name string) (b []byte, err error) {
	e := call("ReadFile", name, false, func() error { b, err = os.ReadFile(name); return nil })
	if e != nil {
		return nil, e
	}
	return b, err
}

func Readlink(name string) (s string, err error) {
	e := call("Readlink", name, false, func() error { s, err = os.Readlink(name); return nil })
	if e != nil {
		return "", e
	}
	return s, err
}

func WriteFile(name string, data []byte, perm FileMode) error {
	v, arg := enter("WriteFile", name, len(data), true)
	switch v {
	case vPass:
		return os.WriteFile(name, data, perm)
	case vDead:
		return &fs.PathError{Op: "open", Path: name, Err: ErrDead}
	case vRefuse:
		return &fs.PathError{Op: "open", Path: name, Err: syscall.EPERM}
	case vCrashBefore:
		die()
		return &fs.PathError{Op: "open", Path: name, Err: ErrDead}
	case vCrashAfter:
		_ = os.WriteFile(name, data, perm)
		die()
		return &fs.PathError{Op: "write", Path: name, Err: ErrDead}
	case vTorn:
		arg = resolve(arg, len(data))
		if arg >= len(data) {
			arg = len(data) - 1
		}
		if arg < 0 {
			arg = 0
		}
		_ = os.WriteFile(name, data[:arg], perm)
		die()
		return &fs.PathError{Op: "write", Path: name, Err: ErrDead}
	default: // vError
		arg = resolve(arg, len(data))
		if arg > len(data) {
			arg = len(data)
		}
		if arg > 0 {
			_ = os.WriteFile(name, data[:arg], perm)
			return &fs.PathError{Op: "write", Path: name, Err: EIO}
		}
		return &fs.PathError{Op: "open", Path: name, Err: EIO}
	}
}

func Open(name string) (*File, error) {
	var w *File
	var err error
	e := call("Open", name, false, func() error {
		f, oerr := os.Open(name)
		w, err = wrap(f, name), oerr
		return nil
	})
	if e != nil {
		return nil, e // a handle opened by a crash-after call stays registered and is released when the session ends
	}
	if err != nil {
		return nil, err
	}
	return w, nil
}

func Create(name string) (*File, error) {
	return OpenFile(name, O_RDWR|O_CREATE|O_TRUNC, 0o666)
}

func OpenFile(name string, flag int, perm FileMode) (*File, error) {
	mut := flag&(O_CREATE|O_TRUNC|O_WRONLY|O_RDWR|O_APPEND) != 0
	var w *File
	var err error
	e := call("OpenFile", name, mut, func() error {
		f, oerr := os.OpenFile(name, flag, perm)
		w, err = wrap(f, name), oerr
		return nil
	})
	if e != nil {
		return nil, e
	}
	if err != nil {
		return nil, err
	}
	return w, nil
}

func CreateTemp(dir, pattern string) (*File, error) {
	d := dir
	if d == "" {
		d = os.TempDir()
	}
	var w *File
	var err error
	e := call("CreateTemp", filepath.Join(d, pattern), true, func() error {
		f, oerr := os.CreateTemp(dir, pattern)
		if f != nil {
			w = wrap(f, f.Name())
		}
		err = oerr
		return nil
	})
	if e != nil {
		return nil, e
	}
	if err != nil {
		return nil, err
	}
	return w, nil
}

func Mkdir(name string, perm FileMode) error {
	return call("Mkdir", name, true, func() error { return os.Mkdir(name, perm) })
}

func MkdirAll(path string, perm FileMode) error {
	return call("MkdirAll", path, true, func() error { return os.MkdirAll(path, perm) })
}

func MkdirTemp(dir, pattern string) (name string, err error) {
	d := dir
	if d == "" {
		d = os.TempDir()
	}
	e := call("MkdirTemp", filepath.Join(d, pattern), true, func() error { name, err = os.MkdirTemp(dir, pattern); return nil })
	if e != nil {
		return "", e
	}
	return name, err
}

func Remove(name string) error {
	return call("Remove", name, true, func() error { return os.Remove(name) })
}

func RemoveAll(path string) error {
	return call("RemoveAll", path, true, func() error { return os.RemoveAll(path) })
}

func Rename(oldpath, newpath string) error {
	return call("Rename", newpath, true, func() error { return os.Rename(oldpath, newpath) }, oldpath)
}

func Symlink(oldname, newname string) error {
	return call("Symlink", newname, true, func() error { return os.Symlink(oldname, newname) })
}

func Link(oldname, newname string) error {
	return call("Link", newname, true, func() error { return os.Link(oldname, newname) })
}

func Chmod(name string, mode FileMode) error {
	return call("Chmod", name, true, func() error { return os.Chmod(name, mode) })
}

func Chown(name string, uid, gid int) error {
	return call("Chown", name, true, func() error { return os.Chown(name, uid, gid) })
}

func Lchown(name string, uid, gid int) error {
	return call("Lchown", name, true, func() error { return os.Lchown(name, uid, gid) })
}

func Chtimes(name string, atime, mtime time.Time) error {
	return call("Chtimes", name, true, func() error { return os.Chtimes(name, atime, mtime) })
}

func Truncate(name string, size int64) error {
	return call("Truncate", name, true, func() error { return os.Truncate(name, size) })
}

func DirFS(dir string) fs.FS { return os.DirFS(dir) }
