// Package cytext holds what the three parser checkers (C07, C08, C09) share: the repository location, the test corpora, the
// project's own CypherLexer / CypherParser run without the front end (tokens and the raw parse tree are the ground truth for
// "what the input contains"), token-level mutations and the start-up check of the token pools.
package cytext

import (
	"encoding/json"
	"fmt"
	"os"
	"path/filepath"
	"regexp"
	"sort"
	"strings"

	"github.com/antlr4-go/antlr/v4"
	"github.com/specterops/dawgs/cypher/parser"

	"verif/enum/grammar"
)

// Repo is the DAWGS tree the check runs against (/repo, or the scratch worktree of a detection demo).
func Repo() string {
	if r := os.Getenv("VERIF_REPO"); r != "" {
		return r
	}
	return "/repo"
}

// LoadGrammar reads cypher/grammar/Cypher.g4 of the tree under test.
func LoadGrammar() (*grammar.Grammar, error) {
	b, err := os.ReadFile(filepath.Join(Repo(), "cypher/grammar/Cypher.g4"))
	if err != nil {
		return nil, err
	}
	return grammar.Read(string(b))
}

// CorpusText is one query of the repository's own test corpora.
type CorpusText struct {
	Text   string
	Source string
}

var sqlCase = regexp.MustCompile(`^-- case: (.*)$`)

// Corpus collects every Cypher text of the repository's parser, translation and integration corpora, de-duplicated, in a
// deterministic order (by source path, then position).
func Corpus() ([]CorpusText, error) {
	var out []CorpusText
	seen := map[string]bool{}
	add := func(q, src string) {
		if !seen[q] {
			seen[q] = true
			out = append(out, CorpusText{q, src})
		}
	}
	root := Repo()
	// 1. cypher/test/cases/*.json: details.query / details.queries
	files, _ := filepath.Glob(filepath.Join(root, "cypher/test/cases/*.json"))
	sort.Strings(files)
	if len(files) == 0 {
		return nil, fmt.Errorf("no corpus under %s/cypher/test/cases", root)
	}
	for _, f := range files {
		b, err := os.ReadFile(f)
		if err != nil {
			return nil, err
		}
		var doc struct {
			TestCases []struct {
				Details struct {
					Query   string   `json:"query"`
					Queries []string `json:"queries"`
				} `json:"details"`
			} `json:"test_cases"`
		}
		if err := json.Unmarshal(b, &doc); err != nil {
			return nil, fmt.Errorf("%s: %v", f, err)
		}
		for _, c := range doc.TestCases {
			if c.Details.Query != "" {
				add(c.Details.Query, rel(root, f))
			}
			for _, q := range c.Details.Queries {
				add(q, rel(root, f))
			}
		}
	}
	// 2. translation cases: "-- case: <cypher>" lines
	files, _ = filepath.Glob(filepath.Join(root, "cypher/models/pgsql/test/translation_cases/*.sql"))
	sort.Strings(files)
	for _, f := range files {
		b, err := os.ReadFile(f)
		if err != nil {
			return nil, err
		}
		for _, line := range strings.Split(string(b), "\n") {
			if m := sqlCase.FindStringSubmatch(strings.TrimRight(line, "\r")); m != nil {
				add(strings.TrimSpace(m[1]), rel(root, f))
			}
		}
	}
	// 3. integration cases and templates: every string member called "cypher" or "query"
	var jsons []string
	_ = filepath.Walk(filepath.Join(root, "integration/testdata"), func(p string, info os.FileInfo, err error) error {
		if err == nil && !info.IsDir() && strings.HasSuffix(p, ".json") {
			jsons = append(jsons, p)
		}
		return nil
	})
	sort.Strings(jsons)
	for _, f := range jsons {
		b, err := os.ReadFile(f)
		if err != nil {
			return nil, err
		}
		var doc any
		if err := json.Unmarshal(b, &doc); err != nil {
			continue
		}
		var walk func(v any)
		walk = func(v any) {
			switch t := v.(type) {
			case map[string]any:
				keys := make([]string, 0, len(t))
				for k := range t {
					keys = append(keys, k)
				}
				sort.Strings(keys)
				for _, k := range keys {
					if s, ok := t[k].(string); ok && (k == "cypher" || k == "query") && strings.TrimSpace(s) != "" {
						add(s, rel(root, f))
					} else {
						walk(t[k])
					}
				}
			case []any:
				for _, e := range t {
					walk(e)
				}
			}
		}
		walk(doc)
	}
	return out, nil
}

func rel(root, p string) string {
	if r, err := filepath.Rel(root, p); err == nil {
		return r
	}
	return p
}

// Token is one token of the project's CypherLexer. Start/Stop are rune offsets (inclusive) into the text.
type Token struct {
	Type        int
	Text        string
	Start, Stop int
}

type errCollector struct {
	*antlr.DefaultErrorListener
	errs []string
}

func (e *errCollector) SyntaxError(_ antlr.Recognizer, _ any, line, column int, msg string, _ antlr.RecognitionException) {
	e.errs = append(e.errs, fmt.Sprintf("line %d:%d %s", line, column, msg))
}

// Lex runs the project's CypherLexer alone. lexErrs are the lexer's own complaints (token recognition errors).
func Lex(text string) (toks []Token, lexErrs []string) {
	lexer := parser.NewCypherLexer(antlr.NewInputStream(text))
	ec := &errCollector{DefaultErrorListener: antlr.NewDefaultErrorListener()}
	lexer.RemoveErrorListeners()
	lexer.AddErrorListener(ec)
	for {
		t := lexer.NextToken()
		if t.GetTokenType() == antlr.TokenEOF {
			break
		}
		toks = append(toks, Token{Type: t.GetTokenType(), Text: t.GetText(), Start: t.GetStart(), Stop: t.GetStop()})
	}
	return toks, ec.errs
}

// RawTree is the parse tree of the project's generated CypherParser with no front end attached.
type RawTree struct {
	Root   antlr.ParserRuleContext
	Errors []string // lexer and parser syntax errors
}

// RawParse runs the project's lexer and generated parser (rule oC_Cypher) with collecting error listeners only.
func RawParse(text string) *RawTree {
	ec := &errCollector{DefaultErrorListener: antlr.NewDefaultErrorListener()}
	lexer := parser.NewCypherLexer(antlr.NewInputStream(text))
	lexer.RemoveErrorListeners()
	lexer.AddErrorListener(ec)
	p := parser.NewCypherParser(antlr.NewCommonTokenStream(lexer, antlr.TokenDefaultChannel))
	p.RemoveErrorListeners()
	p.AddErrorListener(ec)
	root := p.OC_Cypher()
	return &RawTree{Root: root, Errors: ec.errs}
}

// RuleName is the grammar rule of a parse-tree node ("" for terminals).
func RuleName(t antlr.Tree) string {
	if rc, ok := t.(antlr.ParserRuleContext); ok {
		i := rc.GetRuleIndex()
		if i >= 0 && i < len(parser.CypherParserStaticData.RuleNames) {
			return parser.CypherParserStaticData.RuleNames[i]
		}
	}
	return ""
}

// Walk visits every node of a raw parse tree in document order; path is the chain of ancestors (rule contexts), outermost first.
func Walk(t antlr.Tree, f func(node antlr.Tree, path []antlr.ParserRuleContext)) {
	var rec func(n antlr.Tree, path []antlr.ParserRuleContext)
	rec = func(n antlr.Tree, path []antlr.ParserRuleContext) {
		f(n, path)
		if rc, ok := n.(antlr.ParserRuleContext); ok {
			path = append(path, rc)
		}
		for i := 0; i < n.GetChildCount(); i++ {
			rec(n.GetChild(i), path)
		}
	}
	rec(t, nil)
}

// RulesIn is the set of grammar rules that occur in the tree, with counts.
func (r *RawTree) RulesIn() map[string]int {
	out := map[string]int{}
	Walk(r.Root, func(n antlr.Tree, _ []antlr.ParserRuleContext) {
		if name := RuleName(n); name != "" {
			out[name]++
		}
	})
	return out
}

// Span is the rune interval [Start, Stop] (inclusive) a rule context covers, ok=false for empty contexts.
func Span(rc antlr.ParserRuleContext) (start, stop int, ok bool) {
	a, b := rc.GetStart(), rc.GetStop()
	if a == nil || b == nil || b.GetStop() < a.GetStart() {
		return 0, 0, false
	}
	return a.GetStart(), b.GetStop(), true
}

// SymbolicName of a lexer token type ("" for the anonymous literal tokens).
func SymbolicName(tokenType int) string {
	parser.CypherLexerInit()
	names := parser.CypherLexerLexerStaticData.SymbolicNames
	if tokenType >= 0 && tokenType < len(names) {
		return names[tokenType]
	}
	return ""
}

// IsKeyword says whether a token type is one of the grammar's case-insensitive word tokens (MATCH, RETURN, ...).
func IsKeyword(tokenType int) bool {
	n := SymbolicName(tokenType)
	if n == "" || n == "SP" || n == "WHITESPACE" {
		return false
	}
	for _, c := range n {
		if !(c >= 'A' && c <= 'Z' || c == '_') {
			return false
		}
	}
	return true
}

// VerifyPools checks that every pool element is exactly one token of its rule for the project's lexer.
func VerifyPools(pools map[string][]string) error {
	for rule, elems := range pools {
		for _, e := range elems {
			toks, errs := Lex(e)
			if len(errs) > 0 || len(toks) != 1 || SymbolicName(toks[0].Type) != rule {
				got := []string{}
				for _, t := range toks {
					got = append(got, SymbolicName(t.Type))
				}
				return fmt.Errorf("token pool %s: %q lexes as %v (errors %v)", rule, e, got, errs)
			}
		}
	}
	return nil
}

// Mutation is one token-level edit of a text.
type Mutation struct {
	Text string
	Op   string // delete@i, dup@i, swap@i
}

// Mutations returns every single-token deletion, duplication and neighbour swap over the non-blank tokens of the text (blanks
// stay where they are). Texts the lexer cannot tokenise completely are mutated over the tokens it did produce.
func Mutations(text string) []Mutation {
	toks, _ := Lex(text)
	rs := []rune(text)
	type piece struct {
		s     string
		blank bool
	}
	var pieces []piece
	pos := 0
	for _, t := range toks {
		if t.Start > pos {
			pieces = append(pieces, piece{string(rs[pos:t.Start]), true}) // characters the lexer skipped
		}
		if t.Stop+1 > len(rs) || t.Start > t.Stop {
			continue
		}
		pieces = append(pieces, piece{string(rs[t.Start : t.Stop+1]), t.Type == parser.CypherLexerSP})
		pos = t.Stop + 1
	}
	if pos < len(rs) {
		pieces = append(pieces, piece{string(rs[pos:]), true})
	}
	var idx []int
	for i, p := range pieces {
		if !p.blank {
			idx = append(idx, i)
		}
	}
	join := func(ps []piece) string {
		var sb strings.Builder
		for _, p := range ps {
			sb.WriteString(p.s)
		}
		return sb.String()
	}
	var out []Mutation
	for n, i := range idx {
		del := append(append([]piece{}, pieces[:i]...), pieces[i+1:]...)
		out = append(out, Mutation{join(del), fmt.Sprintf("delete@%d", n)})
		dup := append(append(append([]piece{}, pieces[:i+1]...), piece{" ", true}, pieces[i]), pieces[i+1:]...)
		out = append(out, Mutation{join(dup), fmt.Sprintf("dup@%d", n)})
		if n+1 < len(idx) {
			j := idx[n+1]
			sw := append([]piece{}, pieces...)
			sw[i], sw[j] = sw[j], sw[i]
			out = append(out, Mutation{join(sw), fmt.Sprintf("swap@%d", n)})
		}
	}
	return out
}

// JunkInsertions returns the text with junk (characters no token of the grammar starts with, e.g. "!") inserted before every
// non-blank token and at the end: inputs with content the lexer has to skip.
func JunkInsertions(text, junk string) []Mutation {
	toks, _ := Lex(text)
	rs := []rune(text)
	var out []Mutation
	n := 0
	for _, t := range toks {
		if t.Type == parser.CypherLexerSP || t.Start > len(rs) {
			continue
		}
		out = append(out, Mutation{string(rs[:t.Start]) + junk + string(rs[t.Start:]), fmt.Sprintf("junk@%d", n)})
		n++
	}
	out = append(out, Mutation{text + junk, "junk@end"})
	return out
}
