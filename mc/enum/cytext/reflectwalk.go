package cytext

import (
	"fmt"
	"reflect"
)

// WalkValue visits every value reachable from root by reflection (pointers, interfaces, struct fields including unexported
// ones, slices, arrays, map values), each pointer once. visit gets the value and a path such as
// ".SingleQuery.SinglePartQuery.ReadingClauses[0].Match". It is independent of the project's own walkers and copy functions.
func WalkValue(root any, visit func(v reflect.Value, path string)) {
	seen := map[uintptr]bool{}
	var rec func(v reflect.Value, path string, depth int)
	rec = func(v reflect.Value, path string, depth int) {
		if !v.IsValid() || depth > 10000 {
			return
		}
		switch v.Kind() {
		case reflect.Ptr:
			if v.IsNil() {
				return
			}
			if seen[v.Pointer()] {
				return
			}
			seen[v.Pointer()] = true
			visit(v, path)
			rec(v.Elem(), path, depth+1)
		case reflect.Interface:
			if v.IsNil() {
				return
			}
			rec(v.Elem(), path, depth+1)
		case reflect.Struct:
			visit(v, path)
			for i := 0; i < v.NumField(); i++ {
				rec(v.Field(i), path+"."+v.Type().Field(i).Name, depth+1)
			}
		case reflect.Slice, reflect.Array:
			if v.Kind() == reflect.Slice && v.IsNil() {
				return
			}
			visit(v, path)
			for i := 0; i < v.Len(); i++ {
				rec(v.Index(i), fmt.Sprintf("%s[%d]", path, i), depth+1)
			}
		case reflect.Map:
			if v.IsNil() {
				return
			}
			visit(v, path)
			keys := v.MapKeys()
			// deterministic order for string keys
			if v.Type().Key().Kind() == reflect.String {
				for i := 1; i < len(keys); i++ {
					for j := i; j > 0 && keys[j-1].String() > keys[j].String(); j-- {
						keys[j-1], keys[j] = keys[j], keys[j-1]
					}
				}
			}
			for _, k := range keys {
				rec(v.MapIndex(k), fmt.Sprintf("%s[%v]", path, k), depth+1)
			}
		default:
			visit(v, path)
		}
	}
	rec(reflect.ValueOf(root), "", 0)
}

// TypeName is "pkgname.Type" of a value with pointers removed ("" for unnamed types).
func TypeName(v reflect.Value) string {
	t := v.Type()
	for t.Kind() == reflect.Ptr {
		t = t.Elem()
	}
	if t.Name() == "" {
		return ""
	}
	pkg := t.PkgPath()
	for i := len(pkg) - 1; i >= 0; i-- {
		if pkg[i] == '/' {
			pkg = pkg[i+1:]
			break
		}
	}
	return pkg + "." + t.Name()
}
