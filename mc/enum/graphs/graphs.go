// Package graphs is the bounded exhaustive generator of small directed (multi)graphs of engine E3.
//
// A graph has nodes 0..N-1 (every node exists, so a node without an incident edge is an isolated node) and a sorted
// multiset of directed edges over node indices. The generator enumerates, simplest first (by node count, then edge
// count, then lexicographically), every graph inside the bounds of Options - nothing is sampled. With IsoReduce only
// the canonical representative (lexicographically least edge list over all node permutations) of each isomorphism
// class is produced; without it every *labelled* graph is produced, which matters for code whose iteration order
// follows the numeric order of ids.
package graphs

import (
	"fmt"
	"sort"
	"strings"
)

// Edge is a directed edge U -> V between node indices.
type Edge struct{ U, V int }

// Graph is a directed multigraph on nodes 0..N-1. Edges is sorted by (U, V); equal entries are parallel edges.
type Graph struct {
	N     int
	Edges []Edge
}

type Options struct {
	MinNodes  int
	MaxNodes  int
	MaxEdges  int
	SelfLoops bool // allow U == V
	Parallel  bool // allow an ordered pair to occur more than once (multigraph)
	IsoReduce bool // one representative per isomorphism class
	Forward   bool // only pairs with U < V: every labelled DAG whose ids are in a topological order
}

// String renders "n=3 0>1 0>1 2>2".
func (g Graph) String() string {
	var sb strings.Builder
	fmt.Fprintf(&sb, "n=%d", g.N)
	for _, e := range g.Edges {
		fmt.Fprintf(&sb, " %d>%d", e.U, e.V)
	}
	return sb.String()
}

// Parse reads the format written by String.
func Parse(s string) (Graph, error) {
	var g Graph
	fs := strings.Fields(s)
	if len(fs) == 0 {
		return g, fmt.Errorf("empty graph text")
	}
	if _, err := fmt.Sscanf(fs[0], "n=%d", &g.N); err != nil {
		return g, fmt.Errorf("graph text %q: %v", s, err)
	}
	for _, f := range fs[1:] {
		var e Edge
		if _, err := fmt.Sscanf(f, "%d>%d", &e.U, &e.V); err != nil {
			return g, fmt.Errorf("graph text %q: %v", s, err)
		}
		if e.U < 0 || e.V < 0 || e.U >= g.N || e.V >= g.N {
			return g, fmt.Errorf("graph text %q: edge %s outside n=%d", s, f, g.N)
		}
		g.Edges = append(g.Edges, e)
	}
	return g, nil
}

func less(a, b Edge) bool {
	if a.U != b.U {
		return a.U < b.U
	}
	return a.V < b.V
}

func cmpEdges(a, b []Edge) int {
	for i := 0; i < len(a) && i < len(b); i++ {
		if less(a[i], b[i]) {
			return -1
		}
		if less(b[i], a[i]) {
			return 1
		}
	}
	return len(a) - len(b)
}

// Relabel applies the node permutation perm (old index -> new index) and re-sorts the edges.
func (g Graph) Relabel(perm []int) Graph {
	out := Graph{N: g.N, Edges: make([]Edge, len(g.Edges))}
	for i, e := range g.Edges {
		out.Edges[i] = Edge{perm[e.U], perm[e.V]}
	}
	sort.Slice(out.Edges, func(i, j int) bool { return less(out.Edges[i], out.Edges[j]) })
	return out
}

// Permutations calls f with every permutation of 0..n-1 (the slice is reused).
func Permutations(n int, f func(perm []int) bool) {
	perm := make([]int, n)
	for i := range perm {
		perm[i] = i
	}
	var rec func(k int) bool
	rec = func(k int) bool {
		if k == n {
			return f(perm)
		}
		for i := k; i < n; i++ {
			perm[k], perm[i] = perm[i], perm[k]
			if !rec(k + 1) {
				return false
			}
			perm[k], perm[i] = perm[i], perm[k]
		}
		return true
	}
	rec(0)
}

// IsCanonical says whether g's edge list is the lexicographically least among all relabellings of g.
func (g Graph) IsCanonical() bool {
	canonical := true
	Permutations(g.N, func(perm []int) bool {
		if cmpEdges(g.Relabel(perm).Edges, g.Edges) < 0 {
			canonical = false
			return false
		}
		return true
	})
	return canonical
}

// Canonical returns the canonical representative of g's isomorphism class.
func (g Graph) Canonical() Graph {
	best := g.Relabel(identity(g.N))
	Permutations(g.N, func(perm []int) bool {
		if r := g.Relabel(perm); cmpEdges(r.Edges, best.Edges) < 0 {
			best = r
		}
		return true
	})
	return best
}

func identity(n int) []int {
	p := make([]int, n)
	for i := range p {
		p[i] = i
	}
	return p
}

// Each calls f with every graph inside the bounds, simplest first; f returns false to stop. idx counts the graphs
// produced (0-based), so callers can shard with idx % workers.
func Each(opt Options, f func(idx int, g Graph) bool) {
	idx := 0
	for n := opt.MinNodes; n <= opt.MaxNodes; n++ {
		var pairs []Edge
		for u := 0; u < n; u++ {
			for v := 0; v < n; v++ {
				if opt.Forward && u >= v {
					continue
				}
				if u != v || opt.SelfLoops {
					pairs = append(pairs, Edge{u, v})
				}
			}
		}
		for m := 0; m <= opt.MaxEdges; m++ {
			if m > 0 && len(pairs) == 0 {
				break
			}
			if !opt.Parallel && m > len(pairs) {
				break
			}
			choice := make([]int, m)
			var rec func(k, from int) bool
			rec = func(k, from int) bool {
				if k == m {
					g := Graph{N: n, Edges: make([]Edge, m)}
					for i, c := range choice {
						g.Edges[i] = pairs[c]
					}
					if opt.IsoReduce && !g.IsCanonical() {
						return true
					}
					ok := f(idx, g)
					idx++
					return ok
				}
				for c := from; c < len(pairs); c++ {
					choice[k] = c
					next := c + 1
					if opt.Parallel {
						next = c
					}
					if !rec(k+1, next) {
						return false
					}
				}
				return true
			}
			if !rec(0, 0) {
				return
			}
		}
	}
}

// Count returns the number of graphs Each produces.
func Count(opt Options) int {
	n := 0
	Each(opt, func(int, Graph) bool { n++; return true })
	return n
}

// Subsets calls f with every subset of 0..n-1 as a bit mask, in increasing mask order (so the empty set first).
func Subsets(n int, f func(mask uint) bool) {
	for mask := uint(0); mask < 1<<uint(n); mask++ {
		if !f(mask) {
			return
		}
	}
}
