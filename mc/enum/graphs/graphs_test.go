package graphs

import "testing"

// Known counts: unlabelled simple digraphs on n nodes (OEIS A000273): 1, 1, 3, 16, 218, 9608.
func TestIsoCounts(t *testing.T) {
	want := []int{1, 1, 3, 16, 218}
	for n, w := range want {
		got := Count(Options{MinNodes: n, MaxNodes: n, MaxEdges: n * n, IsoReduce: true})
		if got != w {
			t.Fatalf("n=%d: %d isomorphism classes, want %d", n, got, w)
		}
	}
}

// Labelled simple digraphs on n nodes: 2^(n(n-1)); multigraphs with m edges over p pairs: C(p+m-1, m).
func TestLabelledCounts(t *testing.T) {
	if got := Count(Options{MinNodes: 3, MaxNodes: 3, MaxEdges: 6}); got != 64 {
		t.Fatalf("labelled n=3: %d", got)
	}
	if got := Count(Options{MinNodes: 3, MaxNodes: 3, MaxEdges: 4, SelfLoops: true, Parallel: true}); got != 715 {
		t.Fatalf("multigraphs n=3 m<=4: %d, want C(13,4)=715", got)
	}
}

func TestParseRoundTrip(t *testing.T) {
	Each(Options{MinNodes: 0, MaxNodes: 3, MaxEdges: 3, SelfLoops: true, Parallel: true}, func(_ int, g Graph) bool {
		h, err := Parse(g.String())
		if err != nil || h.String() != g.String() {
			t.Fatalf("%s -> %v %v", g, h, err)
		}
		return true
	})
}
