package cyq

import (
	"fmt"
	"strings"
)

// Dataflow enumerates two-clause queries in which a value bound by the first clause (a property of a matched node, an
// UNWIND variable, a WITH alias, a collected list) is consumed by the second clause in every position a value can
// stand: inline property maps of node and relationship patterns, WHERE predicates of fixed, variable-length, optional
// and shortest-path matches (on the near and on the far node), projections, UNWIND lists, and the property maps and
// assignments of updating clauses. The feature grammar of Enumerate composes clauses but always writes literals and
// parameters into those positions; what the translator has to get right here is the scope of a frame across clauses.
//
// Texts the parser rejects are dropped (the cross product contains combinations that are not Cypher).
func Dataflow(opt Options) []Query {
	type producer struct {
		name, text string
		values     []string // expressions of scalar type the consumer may read
		nodes      []string // node variables in scope
		lists      []string // list-valued variables in scope
	}
	producers := []producer{
		{"match-node", "MATCH (a:NodeKind1)", []string{"a.name"}, []string{"a"}, nil},
		{"match-step", "MATCH (a:NodeKind1)-[:EdgeKind1]->(g:NodeKind2)", []string{"g.name", "a.name"}, []string{"a", "g"}, nil},
		{"match-expansion", "MATCH (a:NodeKind1)-[:EdgeKind1*1..]->(g:NodeKind2)", []string{"g.name"}, []string{"a", "g"}, nil},
		{"unwind-literal", "UNWIND ['a', 'b'] AS x", []string{"x"}, nil, nil},
		{"with-unwind", "WITH ['a', 'b'] AS xs UNWIND xs AS x", []string{"x"}, nil, []string{"xs"}},
		{"match-with", "MATCH (a:NodeKind1) WITH a", []string{"a.name"}, []string{"a"}, nil},
		{"match-with-alias", "MATCH (a:NodeKind1) WITH a.name AS x", []string{"x"}, nil, nil},
		{"match-with-two", "MATCH (a:NodeKind1)-[:EdgeKind1]->(g) WITH a, g", []string{"g.name", "a.name"}, []string{"a", "g"}, nil},
		{"match-collect", "MATCH (a:NodeKind1) WITH collect(a.name) AS xs", nil, nil, []string{"xs"}},
		{"match-collect-unwind", "MATCH (a:NodeKind1) WITH collect(a.name) AS xs UNWIND xs AS x", []string{"x"}, nil, []string{"xs"}},
		{"optional", "MATCH (a:NodeKind1) OPTIONAL MATCH (a)-[:EdgeKind1]->(g)", []string{"g.name"}, []string{"a", "g"}, nil},
	}
	type consumer struct {
		name, text string // %V = the value; %A and %G = two node variables of the producer
		updating   bool
		shortest   bool
		list       bool // %V stands for a list variable
	}
	consumers := []consumer{
		{"node-map", "MATCH (c:NodeKind2 {name: %V}) RETURN c", false, false, false},
		{"node-where", "MATCH (c:NodeKind2) WHERE c.name = %V RETURN c", false, false, false},
		{"node-where-in", "MATCH (c:NodeKind2) WHERE c.name IN %V RETURN c", false, false, true},
		{"step-map-near", "MATCH (c {name: %V})-[:EdgeKind2]->(d) RETURN d", false, false, false},
		{"step-map-far", "MATCH (c)-[:EdgeKind2]->(d {name: %V}) RETURN c", false, false, false},
		{"step-rel-map", "MATCH (c)-[r:EdgeKind2 {v: %V}]->(d) RETURN r", false, false, false},
		{"step-where", "MATCH (c)-[r:EdgeKind2]->(d) WHERE d.name = %V RETURN c, r", false, false, false},
		{"expansion-where-near", "MATCH (c)-[:EdgeKind2*1..]->(d) WHERE c.name = %V RETURN d", false, false, false},
		{"expansion-where-far", "MATCH (c)-[:EdgeKind2*1..]->(d) WHERE d.name = %V RETURN c", false, false, false},
		{"expansion-map-near", "MATCH (c {name: %V})-[:EdgeKind2*1..]->(d) RETURN d", false, false, false},
		{"expansion-path", "MATCH p = (c)-[:EdgeKind2*1..2]->(d) WHERE c.name = %V RETURN p", false, false, false},
		{"optional-map", "OPTIONAL MATCH (c:NodeKind2 {name: %V}) RETURN c", false, false, false},
		{"optional-where", "OPTIONAL MATCH (c)-[:EdgeKind2]->(d) WHERE d.name = %V RETURN c, d", false, false, false},
		{"from-bound-node", "MATCH (%A)-[:EdgeKind2]->(d {name: %V}) RETURN d", false, false, false},
		{"between-bound-nodes", "MATCH (%A)-[r:EdgeKind2]->(%G) WHERE r.v = %V RETURN r", false, false, false},
		{"expansion-from-bound-node", "MATCH (%A)-[:EdgeKind2*1..]->(d) WHERE d.name = %V RETURN d", false, false, false},
		{"shortest", "MATCH p = shortestPath((c)-[:EdgeKind2*1..]->(d)) WHERE c.name = %V RETURN p", false, true, false},
		{"shortest-far", "MATCH p = shortestPath((c:NodeKind1)-[:EdgeKind2*1..]->(d)) WHERE d.name = %V RETURN p", false, true, false},
		{"shortest-from-bound", "MATCH p = shortestPath((%A)-[:EdgeKind2*1..]->(d)) WHERE d.name = %V RETURN p", false, true, false},
		{"return", "RETURN %V", false, false, false},
		{"return-expression", "RETURN %V + 'z' AS y ORDER BY y", false, false, false},
		{"with-return", "WITH %V AS y RETURN y", false, false, false},
		{"unwind", "UNWIND [%V, 'q'] AS y RETURN y", false, false, false},
		{"unwind-list", "UNWIND %V AS y RETURN y", false, false, true},
		{"quantifier", "MATCH (c) WHERE any(e IN c.list WHERE e = %V) RETURN c", false, false, false},
		{"pattern-predicate", "MATCH (c {name: %V}) WHERE (c)-[:EdgeKind2]->() RETURN c", false, false, false},
		{"create-node", "CREATE (z:NodeKind2 {name: %V})", true, false, false},
		{"create-node-return", "CREATE (z:NodeKind2 {name: %V}) RETURN z", true, false, false},
		{"create-rel", "CREATE (%A)-[r:EdgeKind2 {since: %V}]->(%G)", true, false, false},
		{"create-rel-return", "CREATE (%A)-[r:EdgeKind2 {since: %V}]->(%G) RETURN r", true, false, false},
		{"set", "SET %A.other = %V", true, false, false},
		{"set-return", "SET %A.other = %V RETURN %A", true, false, false},
		{"match-set", "MATCH (c:NodeKind2) SET c.name = %V", true, false, false},
		{"match-delete", "MATCH (c:NodeKind2 {name: %V}) DETACH DELETE c", true, false, false},
	}
	seen := map[string]bool{}
	var out []Query
	for _, p := range producers {
		for _, c := range consumers {
			if c.updating && !opt.Updating || c.shortest && !opt.ShortestPaths {
				continue
			}
			values := p.values
			if c.list {
				values = p.lists
			}
			needsA, needsG := strings.Contains(c.text, "%A"), strings.Contains(c.text, "%G")
			if needsA && len(p.nodes) < 1 || needsG && len(p.nodes) < 2 {
				continue
			}
			for _, v := range values {
				text := c.text
				text = strings.ReplaceAll(text, "%V", v)
				if needsA {
					text = strings.ReplaceAll(text, "%A", p.nodes[0])
				}
				if needsG {
					text = strings.ReplaceAll(text, "%G", p.nodes[1])
				}
				full := p.text + " " + text
				if seen[full] {
					continue
				}
				seen[full] = true
				if !opt.SkipParseCheck {
					if _, err := Parse(full); err != nil {
						continue
					}
				}
				out = append(out, Query{Text: full, Features: []string{"producer:" + p.name, "consumer:" + c.name, fmt.Sprintf("value:%s", v)}})
			}
		}
	}
	return out
}

// Calls enumerates function calls at every arity from none to two, for the functions the translator knows and one it
// does not, in projection and predicate position, plus projections that stage several bound paths at once (the order in
// which the translator walks its own maps must not show in the statement).
func Calls() []Query {
	functions := []string{"head", "tail", "last", "nodes", "relationships", "length", "size", "startNode", "endNode", "type", "id", "labels",
		"toLower", "toUpper", "toString", "toInteger", "coalesce", "count", "collect", "sum", "min", "max", "avg", "exists", "keys", "properties", "split", "abs", "nosuchfunction"}
	args := [][]string{{}, {"p"}, {"r"}, {"n"}, {"n.name"}, {"n.list"}, {"p", "n"}, {"n.name", "'a'"}}
	var out []Query
	seen := map[string]bool{}
	add := func(text string, feats ...string) {
		if !seen[text] {
			seen[text] = true
			out = append(out, Query{Text: text, Features: feats})
		}
	}
	for _, f := range functions {
		for _, a := range args {
			call := f + "(" + strings.Join(a, ", ") + ")"
			add("MATCH p = (n)-[r]->(m) RETURN "+call, "call:"+f, fmt.Sprintf("arity:%d", len(a)), "position:projection")
			add("MATCH p = (n)-[r]->(m) WHERE "+call+" = 1 RETURN n", "call:"+f, fmt.Sprintf("arity:%d", len(a)), "position:predicate")
		}
	}
	for _, t := range []string{
		"MATCH p1 = (a:NodeKind1)-[:EdgeKind1]->(b:NodeKind2), p2 = (c:NodeKind2)-[:EdgeKind2]->(d:NodeKind1) RETURN p1, nodes(p1), p2, nodes(p2)",
		"MATCH p1 = (a:NodeKind1)-[:EdgeKind1]->(b:NodeKind2), p2 = (c:NodeKind2)-[:EdgeKind2]->(d:NodeKind1), p3 = (e)-[:EdgeKind1]->(f) RETURN p1, p2, p3, relationships(p1), relationships(p2), relationships(p3)",
		"MATCH p1 = (a)-[:EdgeKind1*1..]->(b) MATCH p2 = (b)-[:EdgeKind2*1..]->(c) RETURN p1, length(p1), p2, length(p2)",
		"MATCH p1 = (a)-[:EdgeKind1]->(b) MATCH p2 = (b)-[:EdgeKind2]->(c) WITH p1, p2 RETURN nodes(p1), nodes(p2), p2, p1",
		"MATCH (a {name: 'a', v: 1, b: true, other: 'x'})-[r {v: 1, name: 'a', w: 2}]->(b {v: 2, name: 'b'}) RETURN a, r, b",
		"MATCH (a)-[r]->(b) RETURN {x: a.name, y: b.name, z: r.v, w: id(a)} AS m, [a.name, b.name, r.v] AS l",
	} {
		add(t, "several-paths-or-maps")
	}
	return out
}
