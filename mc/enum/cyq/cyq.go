// Package cyq is the shared query-text source of the translator checks (C01-C06): a deterministic feature-grammar
// enumerator over the read fragment the Cypher -> PostgreSQL translator supports (DESIGN.md section 4, C01), and a
// loader for every query text of the repository's own corpora.
//
// Enumerate(k) returns all feature sets with at most k features on top of `MATCH (n) RETURN n`. A feature occupies one
// or more slots of a query specification (second pattern element, WHERE atom, projection, ...); two features that want
// the same slot are alternatives, not a combination, and a feature may need a slot that another feature of the same set
// fills (a third pattern element needs a second one). Every emitted text has been accepted by the real parser
// (frontend.ParseCypher); a text the parser rejects is a bug of this package and panics.
//
// The order of the result is deterministic: by number of features, then by feature index.
package cyq

import (
	"fmt"
	"os"
	"regexp"
	"sort"
	"strings"
	"sync"

	"github.com/specterops/dawgs/cypher/frontend"
	"github.com/specterops/dawgs/cypher/models/cypher"
	"github.com/specterops/dawgs/cypher/models/walk"
	"github.com/specterops/dawgs/drivers/pg/pgutil"
	"github.com/specterops/dawgs/graph"
)

// Query is one enumerated query text with the features that produced it.
type Query struct {
	Text     string   `json:"text"`
	Features []string `json:"features"`
}

// Has reports whether the query was built with a feature whose name starts with prefix.
func (q Query) Has(prefix string) bool {
	for _, f := range q.Features {
		if strings.HasPrefix(f, prefix) {
			return true
		}
	}
	return false
}

// Options selects feature families beyond the read fragment.
type Options struct {
	// ShortestPaths adds shortestPath / allShortestPaths patterns (translated to plpgsql harness calls).
	ShortestPaths bool
	// Updating adds SET / REMOVE / DELETE / CREATE clauses.
	Updating bool
	// Parameters adds atoms that use $parameters (on by default in Enumerate).
	Parameters bool
	// SkipParseCheck returns the texts without running each through the parser first (for callers that parse every text
	// themselves anyway and treat a rejected enumerated text as a machinery failure).
	SkipParseCheck bool
}

// Node and edge kinds used by the enumerated texts (they are the first kinds of the golden corpus' kind mapper).
const (
	NodeKind1 = "NodeKind1"
	NodeKind2 = "NodeKind2"
	EdgeKind1 = "EdgeKind1"
	EdgeKind2 = "EdgeKind2"
)

// RepoRoot is the DAWGS working tree the corpora are read from (VERIF_REPO or /repo).
func RepoRoot() string {
	if r := os.Getenv("VERIF_REPO"); r != "" {
		return r
	}
	return "/repo"
}

// Parse runs the real parser with the default (read/write permissive) context used by the translation tests.
func Parse(text string) (*cypher.RegularQuery, error) {
	return frontend.ParseCypher(frontend.NewContext(), text)
}

type hop struct {
	dir    string // "->", "<-", "-"
	varlen string // "", "*", "*1..2", ...
}

type spec struct {
	hops       []hop
	repeat     bool
	needR      bool
	nKind      string
	mKind      string
	eKind      string
	nProps     string
	part2      bool
	match2     string
	pathVar    bool
	pathFn     string
	where      []string
	whereNot   bool
	whereOp    string
	unwindPre  string
	unwindPost string
	with       string
	update     string
	noReturn   bool
	proj       string
	projKeepsN bool // the projection still allows ORDER BY over n
	agg        bool
	distinct   bool
	alias      string
	order      string
	skip       string
	limit      string
	extraRet   []string
}

type feature struct {
	name  string
	slots []string
	needs []string
	// family: "", "sp", "upd", "param"
	family string
	apply  func(s *spec)
}

func (s *spec) pattern() string {
	var sb strings.Builder
	sb.WriteString("(n")
	sb.WriteString(s.nKind)
	if s.nProps != "" {
		sb.WriteString(" " + s.nProps)
	}
	sb.WriteString(")")
	names := []string{"m", "o"}
	for i, h := range s.hops {
		inner := ""
		if i == 0 {
			if s.needR {
				inner = "r"
			}
			inner += s.eKind
		}
		inner += h.varlen
		body := ""
		if inner != "" {
			body = "[" + inner + "]"
		}
		switch h.dir {
		case "->":
			sb.WriteString("-" + body + "->")
		case "<-":
			sb.WriteString("<-" + body + "-")
		default:
			sb.WriteString("-" + body + "-")
		}
		name := names[i]
		if s.repeat && i == len(s.hops)-1 {
			name = "n"
		}
		sb.WriteString("(" + name)
		if i == 0 && !(s.repeat && len(s.hops) == 1) {
			sb.WriteString(s.mKind)
		}
		sb.WriteString(")")
	}
	return sb.String()
}

// vars lists the variables bound by the reading part, in a fixed order.
func (s *spec) vars() []string {
	var out []string
	if s.pathVar {
		out = append(out, "p")
	}
	out = append(out, "n")
	if len(s.hops) > 0 {
		if s.needR {
			out = append(out, "r")
		}
		if !(s.repeat && len(s.hops) == 1) {
			out = append(out, "m")
		}
	}
	if len(s.hops) > 1 && !s.repeat {
		out = append(out, "o")
	}
	if s.part2 || s.match2 != "" {
		out = append(out, "x")
	}
	if s.unwindPre != "" || s.unwindPost != "" {
		out = append(out, "u")
	}
	return out
}

var reN = regexp.MustCompile(`\bn\b`)

func (s *spec) render() string {
	var parts []string
	if s.unwindPre != "" {
		parts = append(parts, s.unwindPre)
	}
	pat := s.pattern()
	if s.pathFn != "" {
		pat = s.pathFn + "(" + pat + ")"
	}
	if s.pathVar {
		pat = "p = " + pat
	}
	if s.part2 {
		pat += ", (x)"
	}
	parts = append(parts, "MATCH "+pat)
	if len(s.where) > 0 {
		w := s.where[0]
		if s.whereNot {
			w = "NOT " + w
		}
		if len(s.where) > 1 {
			w += " " + s.whereOp + " " + s.where[1]
		}
		parts = append(parts, "WHERE "+w)
	}
	if s.match2 != "" {
		parts = append(parts, s.match2)
	}
	if s.unwindPost != "" {
		parts = append(parts, s.unwindPost)
	}
	head := strings.Join(parts, " ")

	proj := s.proj
	if proj == "" {
		proj = "n"
	}
	if s.alias != "" {
		proj += " AS " + s.alias
	}
	for _, e := range s.extraRet {
		proj += ", " + e
	}
	var tail []string
	if s.update != "" {
		tail = append(tail, s.update)
	}
	if !s.noReturn {
		ret := "RETURN "
		if s.distinct {
			ret += "DISTINCT "
		}
		tail = append(tail, ret+proj)
		if s.order != "" {
			tail = append(tail, s.order)
		}
		if s.skip != "" {
			tail = append(tail, s.skip)
		}
		if s.limit != "" {
			tail = append(tail, s.limit)
		}
	}
	tailText := strings.Join(tail, " ")

	if s.with != "" {
		vs := s.vars()
		carried := strings.Join(vs, ", ")
		switch s.with {
		case "pass":
			head += " WITH " + carried
		case "where":
			head += " WITH " + carried + " WHERE n.name = 'a'"
		case "distinct":
			head += " WITH DISTINCT " + carried
		case "limit":
			head += " WITH " + carried + " ORDER BY id(n) LIMIT 1"
		case "alias":
			for i, v := range vs {
				if v == "n" {
					vs[i] = "n AS a"
				}
			}
			head += " WITH " + strings.Join(vs, ", ")
			tailText = reN.ReplaceAllString(tailText, "a")
		case "agg":
			head += " WITH n, count(*) AS c"
		case "aggwhere":
			head += " WITH n, count(*) AS c WHERE c > 0"
		}
	}
	return head + " " + tailText
}

func features(opt Options) []feature {
	opt.SkipParseCheck = false
	var fs []feature
	add := func(f feature) { fs = append(fs, f) }

	// --- second pattern element
	for _, d := range []struct{ name, dir string }{{"-->", "->"}, {"<--", "<-"}, {"--", "-"}} {
		d := d
		add(feature{name: "hop1:" + d.name, slots: []string{"hop1"}, apply: func(s *spec) { s.hops = append(s.hops, hop{dir: d.dir}) }})
	}
	for _, d := range []struct{ name, dir string }{{"->", "->"}, {"<-", "<-"}} {
		for _, vl := range []string{"*", "*1..2", "*2..", "*0..1", "*2..2", "*..3"} {
			d, vl := d, vl
			add(feature{name: "hop1:" + d.name + "[" + vl + "]", slots: []string{"hop1"}, apply: func(s *spec) { s.hops = append(s.hops, hop{dir: d.dir, varlen: vl}) }})
		}
	}
	add(feature{name: "hop1:-[*1..2]-", slots: []string{"hop1"}, apply: func(s *spec) { s.hops = append(s.hops, hop{dir: "-", varlen: "*1..2"}) }})
	// --- third pattern element
	for _, d := range []struct{ name, dir string }{{"-->", "->"}, {"<--", "<-"}, {"--", "-"}} {
		d := d
		add(feature{name: "hop2:" + d.name, slots: []string{"hop2"}, needs: []string{"hop1"}, apply: func(s *spec) { s.hops = append(s.hops, hop{dir: d.dir}) }})
	}
	add(feature{name: "hop2:-[*1..2]->", slots: []string{"hop2"}, needs: []string{"hop1"}, apply: func(s *spec) { s.hops = append(s.hops, hop{dir: "->", varlen: "*1..2"}) }})
	add(feature{name: "repeat-var", slots: []string{"repeat", "mkind"}, needs: []string{"hop1"}, apply: func(s *spec) { s.repeat = true }})
	add(feature{name: "rel-var", slots: []string{"relvar"}, needs: []string{"hop1"}, apply: func(s *spec) { s.needR = true }})
	add(feature{name: "part2", slots: []string{"x"}, apply: func(s *spec) { s.part2 = true }})
	add(feature{name: "match2:(x)", slots: []string{"x"}, apply: func(s *spec) { s.match2 = "MATCH (x)" }})
	add(feature{name: "match2:(n)-->(x)", slots: []string{"x"}, apply: func(s *spec) { s.match2 = "MATCH (n)-->(x)" }})
	add(feature{name: "match2:(x)-->(n)", slots: []string{"x"}, apply: func(s *spec) { s.match2 = "MATCH (x)-->(n)" }})
	add(feature{name: "optional:(n)-->(x)", slots: []string{"x"}, apply: func(s *spec) { s.match2 = "OPTIONAL MATCH (n)-->(x)" }})
	add(feature{name: "optional:(n)<-[:E]-(x)", slots: []string{"x"}, apply: func(s *spec) { s.match2 = "OPTIONAL MATCH (n)<-[:" + EdgeKind1 + "]-(x)" }})

	// --- kinds and inline properties
	add(feature{name: "nkind::K1", slots: []string{"nkind"}, apply: func(s *spec) { s.nKind = ":" + NodeKind1 }})
	add(feature{name: "nkind::K1:K2", slots: []string{"nkind"}, apply: func(s *spec) { s.nKind = ":" + NodeKind1 + ":" + NodeKind2 }})
	add(feature{name: "mkind::K2", slots: []string{"mkind"}, needs: []string{"hop1"}, apply: func(s *spec) { s.mKind = ":" + NodeKind2 }})
	add(feature{name: "ekind::E1", slots: []string{"ekind"}, needs: []string{"hop1"}, apply: func(s *spec) { s.eKind = ":" + EdgeKind1 }})
	add(feature{name: "ekind::E1|E2", slots: []string{"ekind"}, needs: []string{"hop1"}, apply: func(s *spec) { s.eKind = ":" + EdgeKind1 + "|" + EdgeKind2 }})
	add(feature{name: "props:{name:'a'}", slots: []string{"props"}, apply: func(s *spec) { s.nProps = "{name: 'a'}" }})
	add(feature{name: "props:{name:'a',v:1}", slots: []string{"props"}, apply: func(s *spec) { s.nProps = "{name: 'a', v: 1}" }})

	// --- named path
	add(feature{name: "path:p", slots: []string{"path", "proj"}, apply: func(s *spec) { s.pathVar = true; s.proj = "p" }})
	for _, fn := range []string{"length", "nodes", "relationships"} {
		fn := fn
		add(feature{name: "path:" + fn + "(p)", slots: []string{"path", "proj"}, needs: []string{"hop1"}, apply: func(s *spec) { s.pathVar = true; s.proj = fn + "(p)" }})
	}
	add(feature{name: "path:where-length", slots: []string{"path", "where"}, needs: []string{"hop1"}, apply: func(s *spec) { s.pathVar = true; s.where = append(s.where, "length(p) > 1") }})
	add(feature{name: "path:p,n", slots: []string{"path", "proj"}, needs: []string{"hop1"}, apply: func(s *spec) { s.pathVar = true; s.proj = "p, n"; s.projKeepsN = true }})

	// --- WHERE atoms
	atoms := []struct {
		name, text string
		needs      []string
		needR      bool
		family     string
	}{
		{"name='a'", "n.name = 'a'", nil, false, ""},
		{"name=\"a\"", "n.name = \"a\"", nil, false, ""},
		{"name<>'a'", "n.name <> 'a'", nil, false, ""},
		{"v<2", "n.v < 2", nil, false, ""},
		{"v>1", "n.v > 1", nil, false, ""},
		{"v>=1", "n.v >= 1", nil, false, ""},
		{"v=1", "n.v = 1", nil, false, ""},
		{"v=1.5", "n.v = 1.5", nil, false, ""},
		{"b=true", "n.b = true", nil, false, ""},
		{"b", "n.b", nil, false, ""},
		{"is-null", "n.name IS NULL", nil, false, ""},
		{"is-not-null", "n.name IS NOT NULL", nil, false, ""},
		{"n:K1", "n:" + NodeKind1, nil, false, ""},
		{"n:K1:K2", "n:" + NodeKind1 + ":" + NodeKind2, nil, false, ""},
		{"starts-with", "n.name STARTS WITH 'a'", nil, false, ""},
		{"ends-with", "n.name ENDS WITH 'a'", nil, false, ""},
		{"contains", "n.name CONTAINS 'a'", nil, false, ""},
		{"regex", "n.name =~ 'a.*'", nil, false, ""},
		{"in-list", "n.name IN ['a', 'b']", nil, false, ""},
		{"in-prop", "'a' IN n.list", nil, false, ""},
		{"id=", "id(n) = 1", nil, false, ""},
		{"id-in", "id(n) IN [1, 2]", nil, false, ""},
		{"pattern-pred", "(n)-->()", nil, false, ""},
		{"pattern-pred-kind", "(n)<-[:" + EdgeKind1 + "]-(:" + NodeKind2 + ")", nil, false, ""},
		{"any", "any(e IN n.list WHERE e = 'a')", nil, false, ""},
		{"all", "all(e IN n.list WHERE e = 'a')", nil, false, ""},
		{"none", "none(e IN n.list WHERE e = 'a')", nil, false, ""},
		{"single", "single(e IN n.list WHERE e = 'a')", nil, false, ""},
		{"tolower", "toLower(n.name) = 'a'", nil, false, ""},
		{"size", "size(n.list) = 1", nil, false, ""},
		{"coalesce", "coalesce(n.name, 'b') = 'a'", nil, false, ""},
		{"arith", "n.v + 1 = 2", nil, false, ""},
		{"labels", "'" + NodeKind1 + "' IN labels(n)", nil, false, ""},
		{"prop=prop", "n.name = m.name", []string{"hop1"}, false, ""},
		{"id<>id", "id(n) <> id(m)", []string{"hop1"}, false, ""},
		{"m:K2", "m:" + NodeKind2, []string{"hop1"}, false, ""},
		{"rel-prop", "r.v = 1", []string{"hop1"}, true, ""},
		{"type(r)", "type(r) = '" + EdgeKind1 + "'", []string{"hop1"}, true, ""},
		{"$p", "n.name = $p", nil, false, "param"},
		{"$p-in", "n.name IN $ps", nil, false, "param"},
		{"$p-starts", "n.name STARTS WITH $p", nil, false, "param"},
		{"$v", "n.v > $v", nil, false, "param"},
		{"id=$v", "id(n) = $v", nil, false, "param"},
	}
	for _, a := range atoms {
		a := a
		if a.family == "param" && !opt.Parameters {
			continue
		}
		add(feature{name: "where:" + a.name, slots: []string{"where"}, needs: a.needs, family: a.family, apply: func(s *spec) {
			s.where = append(s.where, a.text)
			if a.needR {
				s.needR = true
			}
		}})
	}
	add(feature{name: "where:not", slots: []string{"not"}, needs: []string{"where"}, apply: func(s *spec) { s.whereNot = true }})
	for _, op := range []string{"AND", "OR"} {
		for _, a := range []struct{ name, text, family string }{{"v=1", "n.v = 1", ""}, {"n:K2", "n:" + NodeKind2, ""}, {"name='b'", "n.name = 'b'", ""}, {"$q", "n.name = $q", "param"}} {
			op, a := op, a
			if a.family == "param" && !opt.Parameters {
				continue
			}
			add(feature{name: "where2:" + op + ":" + a.name, slots: []string{"where2"}, needs: []string{"where"}, family: a.family, apply: func(s *spec) {
				s.where = append(s.where, a.text)
				s.whereOp = op
			}})
		}
	}

	// --- projections
	projs := []struct {
		name, text string
		needs      []string
		needR      bool
		agg        bool
		keepsN     bool
		family     string
	}{
		{"n.name", "n.name", nil, false, false, true, ""},
		{"n.name,n.v", "n.name, n.v", nil, false, false, true, ""},
		{"id(n)", "id(n)", nil, false, false, true, ""},
		{"labels(n)", "labels(n)", nil, false, false, true, ""},
		{"count(*)", "count(*)", nil, false, true, false, ""},
		{"count(n)", "count(n)", nil, false, true, false, ""},
		{"count(distinct)", "count(DISTINCT n.name)", nil, false, true, false, ""},
		{"collect(n)", "collect(n)", nil, false, true, false, ""},
		{"collect(n.name)", "collect(n.name)", nil, false, true, false, ""},
		{"group", "n.name, count(*)", nil, false, true, false, ""},
		{"group-entity", "n, count(*)", nil, false, true, false, ""},
		{"min", "min(n.v)", nil, false, true, false, ""},
		{"max", "max(n.v)", nil, false, true, false, ""},
		{"sum", "sum(n.v)", nil, false, true, false, ""},
		{"avg", "avg(n.v)", nil, false, true, false, ""},
		{"arith", "n.v + 1", nil, false, false, true, ""},
		{"literal", "n, 'a'", nil, false, false, true, ""},
		{"size", "size(n.list)", nil, false, false, true, ""},
		{"toupper", "toUpper(n.name)", nil, false, false, true, ""},
		{"coalesce", "coalesce(n.name, 'a')", nil, false, false, true, ""},
		{"m", "m", []string{"hop1"}, false, false, false, ""},
		{"n,m", "n, m", []string{"hop1"}, false, false, true, ""},
		{"m.name", "m.name", []string{"hop1"}, false, false, false, ""},
		{"r", "r", []string{"hop1"}, true, false, false, ""},
		{"type(r)", "type(r)", []string{"hop1"}, true, false, false, ""},
		{"r.v", "r.v", []string{"hop1"}, true, false, false, ""},
		{"startNode(r)", "startNode(r)", []string{"hop1"}, true, false, false, ""},
		{"endNode(r)", "endNode(r)", []string{"hop1"}, true, false, false, ""},
		{"count(m)", "n, count(m)", []string{"hop1"}, false, true, false, ""},
		{"x", "n, x", []string{"x"}, false, false, true, ""},
		{"$p", "n, $p", nil, false, false, true, "param"},
	}
	for _, p := range projs {
		p := p
		if p.family == "param" && !opt.Parameters {
			continue
		}
		add(feature{name: "proj:" + p.name, slots: []string{"proj"}, needs: p.needs, family: p.family, apply: func(s *spec) {
			s.proj = p.text
			s.agg = p.agg
			s.projKeepsN = p.keepsN
			if p.needR {
				s.needR = true
			}
		}})
	}
	add(feature{name: "distinct", slots: []string{"distinct"}, apply: func(s *spec) { s.distinct = true }})
	add(feature{name: "alias", slots: []string{"alias"}, apply: func(s *spec) { s.alias = "z" }})

	// --- WITH / UNWIND
	for _, w := range []string{"pass", "where", "distinct", "limit", "alias", "agg", "aggwhere"} {
		w := w
		add(feature{name: "with:" + w, slots: []string{"with"}, apply: func(s *spec) {
			s.with = w
			if w == "agg" || w == "aggwhere" {
				s.extraRet = append(s.extraRet, "c")
			}
		}})
	}
	add(feature{name: "unwind:pre", slots: []string{"unwind"}, apply: func(s *spec) {
		s.unwindPre = "UNWIND [1, 2] AS u"
		s.extraRet = append(s.extraRet, "u")
	}})
	add(feature{name: "unwind:pre-where", slots: []string{"unwind", "where"}, apply: func(s *spec) {
		s.unwindPre = "UNWIND ['a', 'b'] AS u"
		s.where = append(s.where, "n.name = u")
	}})
	add(feature{name: "unwind:labels", slots: []string{"unwind"}, apply: func(s *spec) {
		s.unwindPost = "UNWIND labels(n) AS u"
		s.extraRet = append(s.extraRet, "u")
	}})
	add(feature{name: "unwind:prop", slots: []string{"unwind"}, apply: func(s *spec) {
		s.unwindPost = "UNWIND n.list AS u"
		s.extraRet = append(s.extraRet, "u")
	}})

	// --- ORDER BY / SKIP / LIMIT
	add(feature{name: "order:prop", slots: []string{"order"}, apply: func(s *spec) { s.order = "ORDER BY n.name" }})
	add(feature{name: "order:desc", slots: []string{"order"}, apply: func(s *spec) { s.order = "ORDER BY n.name DESC" }})
	add(feature{name: "order:id", slots: []string{"order"}, apply: func(s *spec) { s.order = "ORDER BY id(n)" }})
	add(feature{name: "order:two", slots: []string{"order"}, apply: func(s *spec) { s.order = "ORDER BY n.name, id(n) DESC" }})
	add(feature{name: "skip", slots: []string{"skip"}, apply: func(s *spec) { s.skip = "SKIP 1" }})
	add(feature{name: "limit", slots: []string{"limit"}, apply: func(s *spec) { s.limit = "LIMIT 1" }})
	if opt.Parameters {
		add(feature{name: "limit:$l", slots: []string{"limit"}, family: "param", apply: func(s *spec) { s.limit = "LIMIT $l" }})
		add(feature{name: "skip:$s", slots: []string{"skip"}, family: "param", apply: func(s *spec) { s.skip = "SKIP $s" }})
		add(feature{name: "props:$param-value", slots: []string{"props"}, family: "param", apply: func(s *spec) { s.nProps = "{name: $p}" }})
	}

	if opt.ShortestPaths {
		for _, fn := range []string{"shortestPath", "allShortestPaths"} {
			for _, vl := range []string{"*1..", "*..3"} {
				fn, vl := fn, vl
				add(feature{name: "sp:" + fn + "[" + vl + "]", slots: []string{"hop1", "path", "proj"}, family: "sp", apply: func(s *spec) {
					s.hops = append(s.hops, hop{dir: "->", varlen: vl})
					s.pathVar = true
					s.pathFn = fn
					s.proj = "p"
				}})
			}
		}
	}
	if opt.Updating {
		upd := []struct {
			name, text string
			needs      []string
			needR      bool
			noReturn   bool
		}{
			{"set-prop", "SET n.name = 'a'", nil, false, false},
			{"set-prop-expr", "SET n.v = n.v + 1", nil, false, false},
			{"set-two", "SET n.name = 'a', n.v = 1", nil, false, false},
			{"set-kind", "SET n:" + NodeKind1, nil, false, false},
			{"remove-prop", "REMOVE n.name", nil, false, false},
			{"remove-kind", "REMOVE n:" + NodeKind1, nil, false, false},
			{"set-rel-prop", "SET r.v = 1", []string{"hop1"}, true, false},
			{"delete", "DELETE n", nil, false, true},
			{"detach-delete", "DETACH DELETE n", nil, false, true},
			{"delete-rel", "DELETE r", []string{"hop1"}, true, true},
			{"create-node", "CREATE (z:" + NodeKind2 + " {name: 'a'})", nil, false, true},
			{"create-rel", "CREATE (n)-[:" + EdgeKind1 + "]->(z:" + NodeKind2 + ")", nil, false, true},
			{"set-param", "SET n.name = $p", nil, false, false},
		}
		for _, u := range upd {
			u := u
			slots := []string{"update"}
			if u.noReturn {
				slots = append(slots, "proj", "distinct", "alias", "order", "skip", "limit", "path")
			}
			add(feature{name: "upd:" + u.name, slots: slots, needs: u.needs, family: "upd", apply: func(s *spec) {
				s.update = u.text
				s.noReturn = u.noReturn
				if u.needR {
					s.needR = true
				}
			}})
		}
	}
	return fs
}

// valid rejects combinations that are not meaningful Cypher (they would only test the translator's error paths for
// semantically invalid input, which C05 covers through the rejected-shape corpus instead).
func (s *spec) valid() bool {
	if s.order != "" {
		// ORDER BY refers to n: n must still be in scope after the projection
		if s.agg {
			return false
		}
		if s.proj != "" && !s.projKeepsN {
			return false
		}
		if s.distinct && s.proj != "" {
			return false
		}
	}
	if s.with == "agg" || s.with == "aggwhere" {
		// only n and c survive the WITH
		if s.proj != "" && (strings.Contains(s.proj, "m") || strings.Contains(s.proj, "r") || strings.Contains(s.proj, "p") || strings.Contains(s.proj, "x")) {
			return false
		}
		for _, e := range s.extraRet {
			if e == "u" {
				return false
			}
		}
		if s.update != "" && strings.Contains(s.update, "r") {
			return false
		}
	}
	if s.pathFn != "" && s.repeat {
		return false
	}
	// every variable an expression mentions must be bound by the reading part
	bound := map[string]bool{}
	for _, v := range s.vars() {
		bound[v] = true
	}
	texts := append([]string{s.proj, s.update, s.order}, s.where...)
	for _, t := range texts {
		for _, v := range refs(t) {
			if !bound[v] {
				return false
			}
		}
	}
	return true
}

// refs returns the pattern variables (m r o x u p) an expression text mentions; property keys (after '.'), parameter
// names (after '$'), kinds (after ':') and string contents are not variables.
func refs(text string) []string {
	var out []string
	inStr := byte(0)
	for i := 0; i < len(text); i++ {
		c := text[i]
		if inStr != 0 {
			if c == inStr {
				inStr = 0
			}
			continue
		}
		if c == '\'' || c == '"' {
			inStr = c
			continue
		}
		if !isWord(c) {
			continue
		}
		j := i
		for j < len(text) && isWord(text[j]) {
			j++
		}
		word := text[i:j]
		prev := byte(' ')
		if i > 0 {
			prev = text[i-1]
		}
		if len(word) == 1 && strings.Contains("mroxup", word) && prev != '.' && prev != '$' && prev != ':' {
			out = append(out, word)
		}
		i = j - 1
	}
	return out
}

func isWord(c byte) bool {
	return c == '_' || (c >= 'a' && c <= 'z') || (c >= 'A' && c <= 'Z') || (c >= '0' && c <= '9')
}

func enumerate(k int, opt Options) []Query {
	fs := features(opt)
	var out []Query
	seen := map[string]bool{}
	var rec func(start int, chosen []int)
	emit := func(chosen []int) {
		// slot bookkeeping
		occupied := map[string]int{}
		for _, i := range chosen {
			for _, sl := range fs[i].slots {
				occupied[sl]++
				if occupied[sl] > 1 {
					return
				}
			}
		}
		for _, i := range chosen {
			for _, need := range fs[i].needs {
				ok := false
				for _, j := range chosen {
					if j == i {
						continue
					}
					for _, sl := range fs[j].slots {
						if sl == need {
							ok = true
						}
					}
				}
				if !ok {
					return
				}
			}
		}
		// apply in a canonical order: hop1 before hop2 (feature index order guarantees it), atoms before where2
		s := &spec{}
		names := make([]string, 0, len(chosen))
		for _, i := range chosen {
			fs[i].apply(s)
			names = append(names, fs[i].name)
		}
		if !s.valid() {
			return
		}
		text := s.render()
		if seen[text] {
			return
		}
		seen[text] = true
		out = append(out, Query{Text: text, Features: names})
	}
	for size := 0; size <= k; size++ {
		rec = func(start int, chosen []int) {
			if len(chosen) == size {
				emit(chosen)
				return
			}
			for i := start; i < len(fs); i++ {
				rec(i+1, append(chosen, i))
			}
		}
		rec(0, nil)
	}
	return out
}

var (
	enumMu    sync.Mutex
	enumCache = map[string][]Query{}
)

// Enumerate returns every query of the read fragment (with $parameter atoms) built from at most k features.
func Enumerate(k int) []Query {
	return EnumerateWith(k, Options{Parameters: true})
}

// EnumerateWith is Enumerate with additional feature families. Every text is parsed by the real parser.
func EnumerateWith(k int, opt Options) []Query {
	key := fmt.Sprintf("%d/%+v", k, opt)
	enumMu.Lock()
	defer enumMu.Unlock()
	if qs, ok := enumCache[key]; ok {
		return qs
	}
	qs := enumerate(k, opt)
	if opt.SkipParseCheck {
		enumCache[key] = qs
		return qs
	}
	// every text must be accepted by the real parser (in parallel; the parser is the dominant cost)
	errs := make([]error, len(qs))
	var wg sync.WaitGroup
	const workers = 16
	for w := 0; w < workers; w++ {
		wg.Add(1)
		go func(w int) {
			defer wg.Done()
			for i := w; i < len(qs); i += workers {
				_, errs[i] = Parse(qs[i].Text)
			}
		}(w)
	}
	wg.Wait()
	for i, err := range errs {
		if err != nil {
			panic(fmt.Sprintf("cyq: enumerated text rejected by the parser: %q (features %v): %v", qs[i].Text, qs[i].Features, err))
		}
	}
	enumCache[key] = qs
	return qs
}

// FeatureNames lists the feature alphabet (for evidence files).
func FeatureNames(opt Options) []string {
	var out []string
	for _, f := range features(opt) {
		out = append(out, f.name)
	}
	return out
}

// translationTestKinds mirrors cypher/models/pgsql/test/translation_test.go: the golden SQL depends on these ids.
var translationTestKinds = []string{
	"NodeKind1", "NodeKind2", "EdgeKind1", "EdgeKind2", "Computer", "User", "HasSession", "GPO", "OU", "Base", "GPLink", "Contains", "Group",
	"AddAllowedToAct", "AddMember", "AdminTo", "AllExtendedRights", "AllowedToDelegate", "CanRDP", "ForceChangePassword", "GenericAll",
	"GenericWrite", "GetChangesAll", "GetChanges", "MemberOf", "Owns", "ReadLAPSPassword", "SQLAdmin", "TrustedBy",
	"WriteAccountRestrictions", "WriteOwner", "AZUser",
}

var (
	corpusKindsOnce sync.Once
	corpusKinds     []string
)

// KindMapper returns a fresh in-memory kind mapper that knows the golden corpus' kinds (same ids as the repository's
// translation tests) followed by every other kind mentioned by a corpus query (sorted), so that no corpus or
// enumerated query is rejected for an unknown kind.
func KindMapper() *pgutil.InMemoryKindMapper {
	corpusKindsOnce.Do(func() {
		known := map[string]bool{}
		for _, k := range translationTestKinds {
			known[k] = true
		}
		extra := map[string]bool{}
		for _, c := range Corpus() {
			q, err := Parse(c.Text)
			if err != nil {
				continue
			}
			_ = walk.Cypher(q, walk.NewSimpleVisitor[cypher.SyntaxNode](func(node cypher.SyntaxNode, _ walk.VisitorHandler) {
				var kinds graph.Kinds
				switch t := node.(type) {
				case *cypher.NodePattern:
					kinds = t.Kinds
				case *cypher.RelationshipPattern:
					kinds = t.Kinds
				case *cypher.KindMatcher:
					kinds = t.Kinds
				case graph.Kinds:
					kinds = t
				}
				for _, k := range kinds {
					if !known[k.String()] {
						extra[k.String()] = true
					}
				}
			}))
		}
		for k := range extra {
			corpusKinds = append(corpusKinds, k)
		}
		sort.Strings(corpusKinds)
	})
	m := pgutil.NewInMemoryKindMapper()
	for _, k := range translationTestKinds {
		m.Put(graph.StringKind(k))
	}
	for _, k := range corpusKinds {
		m.Put(graph.StringKind(k))
	}
	return m
}
