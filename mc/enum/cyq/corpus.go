package cyq

import (
	"encoding/json"
	"os"
	"path/filepath"
	"regexp"
	"sort"
	"strings"
	"sync"
)

// CorpusQuery is one query text of the repository's own corpora with the parameters its case supplies.
type CorpusQuery struct {
	Text   string         `json:"text"`
	Source string         `json:"source"` // file (relative to the repository) and case name
	Params map[string]any `json:"params,omitempty"`
	// Golden is the expected SQL of a translation case ("" elsewhere), whitespace-normalised as the repository's test does.
	Golden string `json:"-"`
	// Negative marks texts listed by the repository as parser-negative cases.
	Negative bool `json:"negative,omitempty"`
}

var (
	corpusOnce sync.Once
	corpus     []CorpusQuery
)

var wsRe = regexp.MustCompile(`\s+`)

// Corpus returns every query text of
//
//	cypher/models/pgsql/test/translation_cases/*.sql          (golden translation cases)
//	integration/testdata/cases/*.json, templates/*.json       (backend-equivalence cases, templates expanded)
//	cypher/test/cases/*.json                                  (parser positive / mutation / negative / filtering cases)
//
// in a deterministic order. Texts are not deduplicated (the same text may carry different parameters).
func Corpus() []CorpusQuery {
	corpusOnce.Do(func() {
		root := RepoRoot()
		corpus = append(corpus, loadTranslationCases(filepath.Join(root, "cypher/models/pgsql/test/translation_cases"))...)
		corpus = append(corpus, loadIntegration(filepath.Join(root, "integration/testdata"))...)
		corpus = append(corpus, loadParserCases(filepath.Join(root, "cypher/test/cases"))...)
	})
	return corpus
}

// TranslationCorpus returns the queries of the translation-relevant corpora only (golden cases + integration cases):
// the 767 texts DESIGN.md refers to.
func TranslationCorpus() []CorpusQuery {
	var out []CorpusQuery
	for _, c := range Corpus() {
		if !strings.HasPrefix(c.Source, "cypher/test/cases/") {
			out = append(out, c)
		}
	}
	return out
}

// CorpusTexts returns the distinct texts of Corpus(), in first-occurrence order.
func CorpusTexts() []string {
	seen := map[string]bool{}
	var out []string
	for _, c := range Corpus() {
		if !seen[c.Text] {
			seen[c.Text] = true
			out = append(out, c.Text)
		}
	}
	return out
}

func sortedGlob(pattern string) []string {
	files, _ := filepath.Glob(pattern)
	sort.Strings(files)
	return files
}

func rel(path string) string {
	r, err := filepath.Rel(RepoRoot(), path)
	if err != nil {
		return path
	}
	return r
}

// loadTranslationCases reads the "-- case:" format of translation_cases/*.sql the way testcase.go does.
func loadTranslationCases(dir string) []CorpusQuery {
	var out []CorpusQuery
	for _, f := range sortedGlob(filepath.Join(dir, "*.sql")) {
		b, err := os.ReadFile(f)
		if err != nil {
			continue
		}
		var cur *CorpusQuery
		var sql strings.Builder
		for _, line := range strings.Split(string(b), "\n") {
			line = wsRe.ReplaceAllString(strings.TrimSpace(line), " ")
			if line == "" {
				continue
			}
			if strings.HasPrefix(line, "--") {
				body := strings.Trim(line, "- ")
				lower := strings.ToLower(body)
				if i := strings.Index(lower, "case:"); i != -1 {
					cur = &CorpusQuery{Text: strings.TrimSpace(body[i+len("case:"):]), Source: rel(f)}
					sql.Reset()
				} else if i := strings.Index(lower, "cypher_params:"); i != -1 && cur != nil {
					params := map[string]any{}
					if json.Unmarshal([]byte(strings.TrimSpace(body[i+len("cypher_params:"):])), &params) == nil {
						cur.Params = params
					}
				}
				continue
			}
			if cur == nil {
				continue
			}
			if i := strings.Index(line, "--"); i >= 0 {
				line = strings.TrimSpace(line[:i])
			}
			if line == "" {
				continue
			}
			if sql.Len() > 0 {
				sql.WriteByte(' ')
			}
			sql.WriteString(line)
			if strings.HasSuffix(line, ";") {
				cur.Golden = sql.String()
				out = append(out, *cur)
				cur = nil
				sql.Reset()
			}
		}
	}
	return out
}

func loadIntegration(dir string) []CorpusQuery {
	var out []CorpusQuery
	for _, f := range sortedGlob(filepath.Join(dir, "cases", "*.json")) {
		b, err := os.ReadFile(f)
		if err != nil {
			continue
		}
		var doc struct {
			Cases []struct {
				Name   string         `json:"name"`
				Cypher string         `json:"cypher"`
				Params map[string]any `json:"params"`
			} `json:"cases"`
		}
		if json.Unmarshal(b, &doc) != nil {
			continue
		}
		for _, c := range doc.Cases {
			if c.Cypher != "" {
				out = append(out, CorpusQuery{Text: c.Cypher, Source: rel(f) + "#" + c.Name, Params: c.Params})
			}
		}
	}
	for _, f := range sortedGlob(filepath.Join(dir, "templates", "*.json")) {
		b, err := os.ReadFile(f)
		if err != nil {
			continue
		}
		var doc struct {
			Families []struct {
				Name     string         `json:"name"`
				Template string         `json:"template"`
				Params   map[string]any `json:"params"`
				Variants []struct {
					Name   string            `json:"name"`
					Vars   map[string]string `json:"vars"`
					Params map[string]any    `json:"params"`
				} `json:"variants"`
			} `json:"families"`
			Metamorphic []struct {
				Name    string `json:"name"`
				Queries []struct {
					Name   string         `json:"name"`
					Cypher string         `json:"cypher"`
					Params map[string]any `json:"params"`
				} `json:"queries"`
			} `json:"metamorphic"`
		}
		if json.Unmarshal(b, &doc) != nil {
			continue
		}
		for _, fam := range doc.Families {
			for _, v := range fam.Variants {
				text := fam.Template
				names := make([]string, 0, len(v.Vars))
				for n := range v.Vars {
					names = append(names, n)
				}
				sort.Strings(names)
				for _, n := range names {
					text = strings.ReplaceAll(text, "{{"+n+"}}", v.Vars[n])
				}
				if strings.Contains(text, "{{") {
					continue
				}
				params := map[string]any{}
				for k, val := range fam.Params {
					params[k] = val
				}
				for k, val := range v.Params {
					params[k] = val
				}
				if len(params) == 0 {
					params = nil
				}
				out = append(out, CorpusQuery{Text: text, Source: rel(f) + "#" + fam.Name + "/" + v.Name, Params: params})
			}
		}
		for _, fam := range doc.Metamorphic {
			for _, q := range fam.Queries {
				out = append(out, CorpusQuery{Text: q.Cypher, Source: rel(f) + "#" + fam.Name + "/" + q.Name, Params: q.Params})
			}
		}
	}
	return out
}

func loadParserCases(dir string) []CorpusQuery {
	var out []CorpusQuery
	for _, f := range sortedGlob(filepath.Join(dir, "*.json")) {
		b, err := os.ReadFile(f)
		if err != nil {
			continue
		}
		var doc struct {
			TestCases []struct {
				Name    string `json:"name"`
				Type    string `json:"type"`
				Details struct {
					Query   string   `json:"query"`
					Queries []string `json:"queries"`
				} `json:"details"`
			} `json:"test_cases"`
		}
		if json.Unmarshal(b, &doc) != nil {
			continue
		}
		for _, c := range doc.TestCases {
			neg := c.Type == "negative_case"
			if c.Details.Query != "" {
				out = append(out, CorpusQuery{Text: c.Details.Query, Source: rel(f) + "#" + c.Name, Negative: neg})
			}
			for _, q := range c.Details.Queries {
				out = append(out, CorpusQuery{Text: q, Source: rel(f) + "#" + c.Name, Negative: neg})
			}
		}
	}
	return out
}
