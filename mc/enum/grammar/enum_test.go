package grammar

import (
	"os"
	"testing"
)

func load(t *testing.T, memoMax int) *Gen {
	src, err := os.ReadFile("/repo/cypher/grammar/Cypher.g4")
	if err != nil {
		t.Skip(err)
	}
	g, err := Read(string(src))
	if err != nil {
		t.Fatal(err)
	}
	gen, err := New(g, Options{Pools: CypherPools(false), Penalty: CypherPenalty(), MemoMax: memoMax})
	if err != nil {
		t.Fatal(err)
	}
	return gen
}

// The materialising and the streaming enumerator must produce the same derivations.
func TestStreamingEqualsMaterialised(t *testing.T) {
	a, b := load(t, 2), load(t, 1)
	if a.Min("oC_Cypher") != "RETURN *" {
		t.Fatalf("minimal query is %q", a.Min("oC_Cypher"))
	}
	seenA, seenB := map[string]bool{}, map[string]bool{}
	sa := a.Enumerate(Plan{Root: "oC_Cypher", K: 2, OccK: 1}, func(x Text) bool { seenA[x.Text] = true; return true })
	sb := b.Enumerate(Plan{Root: "oC_Cypher", K: 2, OccK: 1}, func(x Text) bool { seenB[x.Text] = true; return true })
	if sa.Derivations != sb.Derivations || sa.Distinct != sb.Distinct || len(seenA) != len(seenB) {
		t.Fatalf("materialised %+v vs streamed %+v", sa, sb)
	}
	for k := range seenA {
		if !seenB[k] {
			t.Fatalf("%q only in the materialised enumeration", k)
		}
	}
	if len(a.RuleContexts("oC_Cypher")) != len(a.G.ParserRules) {
		t.Fatalf("%d of %d parser rules reachable", len(a.RuleContexts("oC_Cypher")), len(a.G.ParserRules))
	}
}
