package grammar

import (
	"fmt"
	"os"
	"testing"
	"time"
)

func TestCounts(t *testing.T) {
	src, err := os.ReadFile("/repo/cypher/grammar/Cypher.g4")
	if err != nil {
		t.Skip(err)
	}
	g, err := Read(string(src))
	if err != nil {
		t.Fatal(err)
	}
	gen, err := New(g, Options{Pools: CypherPools(false), Penalty: CypherPenalty()})
	if err != nil {
		t.Fatal(err)
	}
	fmt.Println("rules", len(g.Rules), "parser", len(g.ParserRules), "min:", gen.Min("oC_Cypher"))
	for _, c := range gen.RuleContexts("oC_Cypher") {
		fmt.Printf("%-40s cost=%d dom=%-30s %q | %q   min=%q\n", c.Rule, c.Cost, c.Dominated, Render(c.Pre), Render(c.Post), gen.Min(c.Rule))
	}
	fmt.Println("occurrence contexts:", len(gen.OccurrenceContexts("oC_Cypher")))
	for k := 0; k <= 3; k++ {
		t0 := time.Now()
		n := 0
		st := gen.Enumerate(Plan{Root: "oC_Cypher", K: k, OccK: k - 1}, func(tx Text) bool {
			n++
			if k == 1 && n%40 == 0 {
				fmt.Printf("   %q\n", tx.Text)
			}
			return true
		})
		fmt.Printf("k %d %+v %v\n", k, st, time.Since(t0))
	}
}
