package grammar

import (
	"crypto/sha256"
	"fmt"
	"sort"
	"strings"
	"unicode"
)

// enum.go is the derivation enumerator.
//
// Minimal derivation: every node of every rule has a shortest derivation (shortest rendered text, ties: earlier alternative),
// computed as a least fixed point over the rules. Lexical rules are never expanded character by character: a lexer rule with a
// token pool is instantiated by the first pool element, any other lexer rule by its own minimal derivation (for the keyword rules
// of Cypher.g4 that is the upper-case spelling).
//
// Deviation (cost 1 each): choosing a non-minimal alternative; taking an optional; each repetition of `*`; each repetition of
// `+` beyond the first; instantiating a pooled token by a pool element other than the first. `SP?` is not a deviation point
// unless Options.OptionalSP is set: an untaken optional SP is rendered as one blank exactly when the two neighbouring characters
// would otherwise fuse into one word token (see Render), and as nothing otherwise.
//
// Variants(rule, k) is the complete list of derivations of a rule with at most k deviations, in a deterministic order (by cost,
// then by position in the grammar). Enumerate places those variants into the cheapest context that reaches the rule from the
// start rule (all the rest of the query minimal), and optionally into every other grammar position of the rule.

const softSP = "\x01"

// RuleSet is a set of parser-rule indices (Rule.Index).
type RuleSet [4]uint64

func (r *RuleSet) Add(i int)              { r[i>>6] |= 1 << (uint(i) & 63) }
func (r RuleSet) Has(i int) bool          { return i >= 0 && r[i>>6]&(1<<(uint(i)&63)) != 0 }
func (r *RuleSet) Or(o RuleSet)           { r[0] |= o[0]; r[1] |= o[1]; r[2] |= o[2]; r[3] |= o[3] }
func (r RuleSet) Union(o RuleSet) RuleSet { r.Or(o); return r }

type Variant struct {
	Text  string // with soft-SP markers; use Render
	Cost  int
	Rules RuleSet
	pen   int // sum of Options.Penalty over the rules used (minimal-derivation bookkeeping only)
}

func (v Variant) weight() int { return textLen(v.Text) + v.pen }

type Options struct {
	Pools      map[string][]string // lexer rule name -> instances, the first is the default
	OptionalSP bool                // enumerate taking `SP?` as a deviation
	// Penalty makes the minimal derivation avoid rules: a derivation through a penalised rule counts as that many characters
	// longer. Used to keep the minimal query and the contexts free of updating clauses, CALL and unsupported constructs, so that
	// those appear only as deliberate deviations.
	Penalty map[string]int
	// MemoMax is the largest deviation budget for which derivation lists are materialised and memoised (default 2).
	MemoMax int
	SPRule  string // name of the whitespace token rule ("SP")
}

type Gen struct {
	G   *Grammar
	Opt Options

	min     map[*Rule]*Variant
	minAlt  map[*Node]int
	memo    map[memoKey][]Variant
	lexMin  map[*Rule]string
	working map[memoKey]bool
}

type memoKey struct {
	rule   *Rule
	budget int
}

func New(g *Grammar, opt Options) (*Gen, error) {
	if len(g.ParserRules) > 256 {
		return nil, fmt.Errorf("grammar has %d parser rules; RuleSet holds 256", len(g.ParserRules))
	}
	if opt.SPRule == "" {
		opt.SPRule = "SP"
	}
	s := &Gen{G: g, Opt: opt, min: map[*Rule]*Variant{}, minAlt: map[*Node]int{}, memo: map[memoKey][]Variant{}, lexMin: map[*Rule]string{}, working: map[memoKey]bool{}}
	for name, p := range opt.Pools {
		r, ok := g.ByName[name]
		if !ok || !r.Lexer {
			return nil, fmt.Errorf("token pool for %q: no such lexer rule", name)
		}
		if len(p) == 0 {
			return nil, fmt.Errorf("token pool for %q is empty", name)
		}
	}
	// least fixed point of the minimal derivations
	for changed := true; changed; {
		changed = false
		for _, r := range g.Rules {
			v, ok := s.minNode(r.Body, r.Lexer)
			if !ok {
				continue
			}
			if !r.Lexer {
				v.Rules.Add(r.Index)
			}
			v.pen += s.Opt.Penalty[r.Name]
			if cur := s.min[r]; cur == nil || v.weight() < cur.weight() {
				vv := v
				s.min[r] = &vv
				changed = true
			}
		}
	}
	for _, r := range g.Rules {
		if s.min[r] == nil {
			return nil, fmt.Errorf("rule %s has no finite derivation", r.Name)
		}
	}
	// freeze the minimal alternative of every Alt node
	var freeze func(n *Node, lexer bool)
	freeze = func(n *Node, lexer bool) {
		if n.Kind == KAlt {
			best, bestLen := 0, -1
			for i, k := range n.Kids {
				if v, ok := s.minNode(k, lexer); ok && (bestLen < 0 || v.weight() < bestLen) {
					best, bestLen = i, v.weight()
				}
			}
			s.minAlt[n] = best
		}
		for _, k := range n.Kids {
			freeze(k, lexer)
		}
	}
	for _, r := range g.Rules {
		freeze(r.Body, r.Lexer)
	}
	return s, nil
}

func textLen(s string) int {
	n := 0
	for _, c := range s {
		if c != 1 {
			n++
		}
	}
	return n
}

func (s *Gen) isOptSP(n *Node) bool {
	return n.Kind == KOpt && n.Kids[0].Kind == KRef && n.Kids[0].Name == s.Opt.SPRule
}

// minNode computes the minimal derivation of a node from the current approximation of the rule minima.
func (s *Gen) minNode(n *Node, lexer bool) (Variant, bool) {
	switch n.Kind {
	case KSeq:
		var out Variant
		for _, k := range n.Kids {
			v, ok := s.minNode(k, lexer)
			if !ok {
				return Variant{}, false
			}
			out.Text += v.Text
			out.Rules.Or(v.Rules)
			out.pen += v.pen
		}
		return out, true
	case KAlt:
		if i, frozen := s.minAlt[n]; frozen {
			return s.minNode(n.Kids[i], lexer)
		}
		var best Variant
		found := false
		for _, k := range n.Kids {
			if v, ok := s.minNode(k, lexer); ok && (!found || v.weight() < best.weight()) {
				best, found = v, true
			}
		}
		return best, found
	case KOpt:
		if !lexer && s.isOptSP(n) {
			return Variant{Text: softSP}, true
		}
		return Variant{}, true
	case KStar:
		return Variant{}, true
	case KPlus:
		return s.minNode(n.Kids[0], lexer)
	case KRef:
		r := s.G.ByName[n.Name]
		if r.Lexer {
			if p, ok := s.Opt.Pools[r.Name]; ok {
				return Variant{Text: p[0]}, true
			}
		}
		if v := s.min[r]; v != nil {
			return *v, true
		}
		return Variant{}, false
	case KLit:
		if n.Neg {
			c, err := sampleSet(escapeForSet(n.Text), true)
			return Variant{Text: c}, err == nil
		}
		return Variant{Text: n.Text}, true
	case KSet:
		c, err := sampleSet(n.Text, n.Neg)
		return Variant{Text: c}, err == nil
	case KAny:
		return Variant{Text: "x"}, true
	case KEOF:
		return Variant{}, true
	}
	return Variant{}, false
}

func escapeForSet(s string) string {
	switch s {
	case "]", "\\", "-":
		return "\\" + s
	}
	return s
}

// Min is the rendered minimal derivation of a rule.
func (s *Gen) Min(rule string) string { return Render(s.min[s.G.ByName[rule]].Text) }

// Variants lists every derivation of the parser rule with at most k deviations.
func (s *Gen) Variants(rule string, k int) []Variant {
	r := s.G.ByName[rule]
	if r == nil {
		return nil
	}
	return s.ruleVariants(r, k)
}

func (s *Gen) ruleVariants(r *Rule, budget int) []Variant {
	key := memoKey{r, budget}
	if v, ok := s.memo[key]; ok {
		return v
	}
	if s.working[key] {
		// a cycle with no deviation in it cannot exist (the minimal derivation is finite); a cycle through a non-minimal
		// choice always arrives with a smaller budget
		panic(fmt.Sprintf("grammar enumerator: rule %s re-entered with the same budget %d", r.Name, budget))
	}
	s.working[key] = true
	vs := s.gen(r.Body, budget)
	out := make([]Variant, len(vs))
	for i, v := range vs {
		v.Rules.Add(r.Index)
		out[i] = v
	}
	sort.SliceStable(out, func(i, j int) bool { return out[i].Cost < out[j].Cost })
	delete(s.working, key)
	s.memo[key] = out
	return out
}

func (s *Gen) gen(n *Node, budget int) []Variant {
	switch n.Kind {
	case KSeq:
		acc := []Variant{{}}
		for _, k := range n.Kids {
			var next []Variant
			// children are generated once per distinct remaining budget
			byBudget := map[int][]Variant{}
			for _, a := range acc {
				rem := budget - a.Cost
				kv, ok := byBudget[rem]
				if !ok {
					kv = s.gen(k, rem)
					byBudget[rem] = kv
				}
				for _, v := range kv {
					next = append(next, Variant{Text: a.Text + v.Text, Cost: a.Cost + v.Cost, Rules: a.Rules.Union(v.Rules)})
				}
			}
			acc = next
		}
		return acc
	case KAlt:
		m := s.minAlt[n]
		out := append([]Variant(nil), s.gen(n.Kids[m], budget)...)
		if budget >= 1 {
			for i, k := range n.Kids {
				if i == m {
					continue
				}
				for _, v := range s.gen(k, budget-1) {
					v.Cost++
					out = append(out, v)
				}
			}
		}
		return out
	case KOpt:
		if s.isOptSP(n) && !s.Opt.OptionalSP {
			return []Variant{{Text: softSP}}
		}
		none := Variant{}
		if s.isOptSP(n) {
			none.Text = softSP
		}
		out := []Variant{none}
		if budget >= 1 {
			for _, v := range s.gen(n.Kids[0], budget-1) {
				v.Cost++
				out = append(out, v)
			}
		}
		return out
	case KStar, KPlus:
		free := 0
		if n.Kind == KPlus {
			free = 1
		}
		var out []Variant
		if n.Kind == KStar {
			out = append(out, Variant{})
		}
		// reps repetitions cost reps-free deviations before anything inside them deviates
		for reps := 1; reps-free <= budget; reps++ {
			if reps < 1 {
				continue
			}
			base := reps - free
			acc := []Variant{{Cost: base}}
			for i := 0; i < reps; i++ {
				var next []Variant
				for _, a := range acc {
					for _, v := range s.gen(n.Kids[0], budget-a.Cost) {
						next = append(next, Variant{Text: a.Text + v.Text, Cost: a.Cost + v.Cost, Rules: a.Rules.Union(v.Rules)})
					}
				}
				acc = next
			}
			out = append(out, acc...)
		}
		return out
	case KRef:
		r := s.G.ByName[n.Name]
		if r.Lexer {
			if p, ok := s.Opt.Pools[r.Name]; ok {
				out := []Variant{{Text: p[0]}}
				if budget >= 1 {
					for _, x := range p[1:] {
						out = append(out, Variant{Text: x, Cost: 1})
					}
				}
				return out
			}
			return []Variant{{Text: s.min[r].Text}}
		}
		return s.ruleVariants(r, budget)
	default:
		v, _ := s.minNode(n, false)
		return []Variant{v}
	}
}

// each streams the derivations of a node with at most budget deviations to cb (false stops) without materialising them. Lists
// are materialised (and memoised per rule) only for budgets up to Options.MemoMax; above that the enumeration recurses, so the
// memory needed does not grow with the number of derivations. The order is deterministic (grammar order, depth first).
func (s *Gen) each(n *Node, budget int, cb func(Variant) bool) bool {
	if budget <= s.memoMax() {
		for _, v := range s.gen(n, budget) {
			if !cb(v) {
				return false
			}
		}
		return true
	}
	switch n.Kind {
	case KSeq:
		var rec func(i int, acc Variant) bool
		rec = func(i int, acc Variant) bool {
			if i == len(n.Kids) {
				return cb(acc)
			}
			return s.each(n.Kids[i], budget-acc.Cost, func(v Variant) bool {
				return rec(i+1, Variant{Text: acc.Text + v.Text, Cost: acc.Cost + v.Cost, Rules: acc.Rules.Union(v.Rules)})
			})
		}
		return rec(0, Variant{})
	case KAlt:
		m := s.minAlt[n]
		if !s.each(n.Kids[m], budget, cb) {
			return false
		}
		for i, k := range n.Kids {
			if i == m {
				continue
			}
			if !s.each(k, budget-1, func(v Variant) bool { v.Cost++; return cb(v) }) {
				return false
			}
		}
		return true
	case KOpt:
		if s.isOptSP(n) && !s.Opt.OptionalSP {
			return cb(Variant{Text: softSP})
		}
		none := Variant{}
		if s.isOptSP(n) {
			none.Text = softSP
		}
		if !cb(none) {
			return false
		}
		return s.each(n.Kids[0], budget-1, func(v Variant) bool { v.Cost++; return cb(v) })
	case KStar, KPlus:
		free := 0
		if n.Kind == KPlus {
			free = 1
		} else if !cb(Variant{}) {
			return false
		}
		for reps := 1; reps-free <= budget; reps++ {
			var rec func(i int, acc Variant) bool
			rec = func(i int, acc Variant) bool {
				if i == reps {
					return cb(acc)
				}
				return s.each(n.Kids[0], budget-acc.Cost, func(v Variant) bool {
					return rec(i+1, Variant{Text: acc.Text + v.Text, Cost: acc.Cost + v.Cost, Rules: acc.Rules.Union(v.Rules)})
				})
			}
			if !rec(0, Variant{Cost: reps - free}) {
				return false
			}
		}
		return true
	case KRef:
		r := s.G.ByName[n.Name]
		if r.Lexer {
			for _, v := range s.gen(n, budget) {
				if !cb(v) {
					return false
				}
			}
			return true
		}
		return s.each(r.Body, budget, func(v Variant) bool { v.Rules.Add(r.Index); return cb(v) })
	default:
		v, _ := s.minNode(n, false)
		return cb(v)
	}
}

func (s *Gen) memoMax() int {
	if s.Opt.MemoMax > 0 {
		return s.Opt.MemoMax
	}
	return 2
}

// EachVariant streams every derivation of a parser rule with at most k deviations (see each).
func (s *Gen) EachVariant(rule string, k int, cb func(Variant) bool) bool {
	r := s.G.ByName[rule]
	if r == nil {
		return true
	}
	return s.each(r.Body, k, func(v Variant) bool { v.Rules.Add(r.Index); return cb(v) })
}

// Render resolves the soft-SP markers: a blank is written exactly where the neighbouring characters would otherwise fuse into
// one word (identifier / keyword / number) token.
func Render(s string) string {
	if !strings.Contains(s, softSP) {
		return s
	}
	var sb strings.Builder
	rs := []rune(s)
	var last rune
	pending := false
	for _, c := range rs {
		if c == 1 {
			pending = true
			continue
		}
		if pending {
			if wordish(last) && wordish(c) {
				sb.WriteByte(' ')
			}
			pending = false
		}
		sb.WriteRune(c)
		last = c
	}
	return sb.String()
}

func wordish(c rune) bool {
	return c == '_' || c == '`' || c == '$' || unicode.IsLetter(c) || unicode.IsDigit(c)
}

// Context is a minimal query around one grammar position of a parser rule.
type Context struct {
	Rule  string // the rule whose variants are placed at the hole
	Via   string // "Parent#n": the n-th reference inside the parent rule, "" for the start rule
	Pre   string
	Post  string
	Cost  int // deviations spent on reaching the position
	Rules RuleSet
	// Dominated names the parent rule whose own context already contains every text of this one (the position is reached from
	// the parent's minimal body at no cost, so Variants(parent, k) includes Variants(rule, k) at this very place). Enumerate
	// skips dominated contexts: nothing is lost and the derivation count stays close to the distinct-text count.
	Dominated string
	pen       int
}

type occurrence struct {
	parent *Rule
	node   *Node
	ord    int
}

func (s *Gen) occurrences(r *Rule) []occurrence {
	var out []occurrence
	var walk func(n *Node)
	walk = func(n *Node) {
		if n.Kind == KRef {
			if t := s.G.ByName[n.Name]; !t.Lexer {
				out = append(out, occurrence{r, n, len(out)})
			}
		}
		for _, k := range n.Kids {
			walk(k)
		}
	}
	walk(r.Body)
	return out
}

func (s *Gen) minSeq(nodes []*Node) Variant {
	var out Variant
	for _, b := range nodes {
		v, _ := s.minNode(b, false)
		out.Text += v.Text
		out.Rules.Or(v.Rules)
		out.pen += v.pen
	}
	return out
}

// pathTo renders the body of a rule minimally except that the target reference is reached (and left as the hole).
func (s *Gen) pathTo(n, target *Node) (pre, post Variant, found bool) {
	if n == target {
		return Variant{}, Variant{}, true
	}
	switch n.Kind {
	case KSeq:
		for i, k := range n.Kids {
			p, q, ok := s.pathTo(k, target)
			if !ok {
				continue
			}
			before, after := s.minSeq(n.Kids[:i]), s.minSeq(n.Kids[i+1:])
			pre = Variant{Text: before.Text + p.Text, Cost: p.Cost, Rules: before.Rules.Union(p.Rules), pen: before.pen + p.pen}
			post = Variant{Text: q.Text + after.Text, Rules: after.Rules.Union(q.Rules), pen: after.pen + q.pen}
			return pre, post, true
		}
	case KAlt:
		for i, k := range n.Kids {
			if p, q, ok := s.pathTo(k, target); ok {
				if i != s.minAlt[n] {
					p.Cost++
				}
				return p, q, true
			}
		}
	case KOpt, KStar:
		if p, q, ok := s.pathTo(n.Kids[0], target); ok {
			p.Cost++
			return p, q, true
		}
	case KPlus:
		return s.pathTo(n.Kids[0], target)
	}
	return Variant{}, Variant{}, false
}

// RuleContexts returns, for every parser rule reachable from root, the best context: no penalised rule on the way if possible,
// then fewest deviations, then shortest.
func (s *Gen) RuleContexts(root string) []Context {
	ctxs, _ := s.contexts(root)
	return ctxs
}

// OccurrenceContexts returns one context for every reference to a parser rule anywhere in the reachable grammar (the parent
// rule sits in its own best context). The best context of each rule is among them.
func (s *Gen) OccurrenceContexts(root string) []Context {
	_, occ := s.contexts(root)
	return occ
}

func (s *Gen) contexts(root string) (perRule, perOccurrence []Context) {
	rootRule := s.G.ByName[root]
	best := map[*Rule]*Context{rootRule: {Rule: root}}
	best[rootRule].Rules.Add(rootRule.Index)
	done := map[*Rule]bool{}
	better := func(a, b *Context) bool {
		if a.pen != b.pen {
			return a.pen < b.pen
		}
		if a.Cost != b.Cost {
			return a.Cost < b.Cost
		}
		return textLen(a.Pre)+textLen(a.Post) < textLen(b.Pre)+textLen(b.Post)
	}
	derive := func(pc *Context, parent *Rule, oc occurrence) (*Context, bool) {
		pre, post, ok := s.pathTo(parent.Body, oc.node)
		if !ok {
			return nil, false
		}
		t := s.G.ByName[oc.node.Name]
		c := &Context{Rule: t.Name, Via: fmt.Sprintf("%s#%d", parent.Name, oc.ord), Pre: pc.Pre + pre.Text, Post: post.Text + pc.Post,
			Cost: pc.Cost + pre.Cost, Rules: pc.Rules.Union(pre.Rules).Union(post.Rules), pen: pc.pen + pre.pen + post.pen + s.Opt.Penalty[t.Name]}
		c.Rules.Add(t.Index)
		if pre.Cost == 0 {
			c.Dominated = parent.Name
		}
		return c, true
	}
	for {
		var cur *Rule
		for _, r := range s.G.ParserRules { // file order keeps ties deterministic
			if c := best[r]; c != nil && !done[r] && (cur == nil || better(c, best[cur])) {
				cur = r
			}
		}
		if cur == nil {
			break
		}
		done[cur] = true
		for _, oc := range s.occurrences(cur) {
			c, ok := derive(best[cur], cur, oc)
			if !ok {
				continue
			}
			t := s.G.ByName[oc.node.Name]
			if !done[t] && (best[t] == nil || better(c, best[t])) {
				best[t] = c
			}
		}
	}
	for _, r := range s.G.ParserRules {
		if c := best[r]; c != nil {
			perRule = append(perRule, *c)
		}
	}
	for _, r := range s.G.ParserRules {
		pc := best[r]
		if pc == nil {
			continue
		}
		if r == rootRule {
			perOccurrence = append(perOccurrence, *pc)
		}
		for _, oc := range s.occurrences(r) {
			if c, ok := derive(pc, r, oc); ok {
				perOccurrence = append(perOccurrence, *c)
			}
		}
	}
	return perRule, perOccurrence
}

// Text is one generated query text.
type Text struct {
	Text  string
	Rule  string // the rule that was varied
	Via   string // grammar position of that rule
	Cost  int    // deviations inside the varied rule
	Reach int    // deviations spent on reaching the position
	Rules RuleSet
}

// Plan says what Enumerate produces.
type Plan struct {
	Root string
	// K is the deviation bound inside the varied rule for the best context of every rule; OccK (>= 0) additionally places all
	// derivations with at most OccK deviations at every other grammar position of every rule.
	K, OccK int
	// Budget, when set, may lower the bound for one context (e.g. contexts that lie inside a construct that is rejected anyway).
	Budget func(c Context, k int) int
	// Shard, when set, selects the texts this process is responsible for. It must be a function of the text alone: identical
	// texts then always fall into the same shard, so per-shard distinct counts add up exactly.
	Shard func(text string) bool
}

type Stats struct {
	Contexts, ContextsSkippedDominated int
	Derivations                        int64 // derivations produced (all shards)
	Distinct                           int64 // distinct texts emitted (this shard)
}

// Enumerate emits, without duplicates and in a deterministic order, every text of the plan. emit returns false to stop.
func (s *Gen) Enumerate(p Plan, emit func(Text) bool) Stats {
	var st Stats
	seen := map[[16]byte]struct{}{}
	perRule, perOcc := s.contexts(p.Root)
	place := func(c Context, budget int) bool {
		if c.Dominated != "" {
			st.ContextsSkippedDominated++
			return true
		}
		if p.Budget != nil {
			budget = p.Budget(c, budget)
		}
		st.Contexts++
		return s.EachVariant(c.Rule, budget, func(v Variant) bool {
			st.Derivations++
			txt := Render(c.Pre + v.Text + c.Post)
			if p.Shard != nil && !p.Shard(txt) {
				return true
			}
			h := sha256.Sum256([]byte(txt))
			var key [16]byte
			copy(key[:], h[:16])
			if _, dup := seen[key]; dup {
				return true
			}
			seen[key] = struct{}{}
			st.Distinct++
			return emit(Text{Text: txt, Rule: c.Rule, Via: c.Via, Cost: v.Cost, Reach: c.Cost, Rules: c.Rules.Union(v.Rules)})
		})
	}
	for _, c := range perRule {
		if !place(c, p.K) {
			return st
		}
	}
	if p.OccK >= 0 {
		bestCtx := map[string]bool{}
		for _, c := range perRule {
			bestCtx[c.Rule+"@"+c.Via] = true
		}
		for _, c := range perOcc {
			if bestCtx[c.Rule+"@"+c.Via] {
				continue
			}
			if !place(c, p.OccK) {
				return st
			}
		}
	}
	return st
}

// RuleIndex returns the RuleSet index of a parser rule, or -1.
func (g *Grammar) RuleIndex(name string) int {
	if r, ok := g.ByName[name]; ok && !r.Lexer {
		return r.Index
	}
	return -1
}
