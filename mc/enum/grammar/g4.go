// Package grammar is engine E3's "Cypher texts from the shipped grammar" generator: a reader for the ANTLR-4 subset used by
// cypher/grammar/Cypher.g4 and a deterministic, deviation-bounded, de-duplicating enumerator of derivations.
//
// g4.go is the reader. Supported: `grammar X;`, block and line comments, parser and lexer rules, `fragment`, alternatives,
// groups, the suffixes ? * +, quoted literals with \\ \' \" \n \r \t \f \b \uXXXX escapes, character sets [...] (with the
// same escapes and \p{..} classes), `~` on sets and on single-character literals, `.` and EOF. Anything else (actions, predicates,
// lexer commands, options blocks, labels, non-greedy suffixes) is a read error, so that a grammar that leaves the subset is a
// machinery failure instead of being half understood.
package grammar

import (
	"fmt"
	"strconv"
	"strings"
	"unicode"
)

type Kind int

const (
	KSeq Kind = iota
	KAlt
	KOpt
	KStar
	KPlus
	KRef
	KLit
	KSet
	KEOF
	KAny
)

// Node is one element of a rule body.
type Node struct {
	Kind Kind
	Kids []*Node // Seq, Alt: n children; Opt, Star, Plus: one child
	Name string  // Ref: referenced rule
	Text string  // Lit: decoded text; Set: raw set body (between the brackets)
	Neg  bool    // Set / Lit preceded by ~
}

type Rule struct {
	Name     string
	Fragment bool
	Lexer    bool // ANTLR convention: lexer rule names start with an upper-case letter
	Body     *Node
	Index    int // position among the parser rules (Lexer == false) in file order, -1 for lexer rules
}

type Grammar struct {
	Name        string
	Rules       []*Rule // file order
	ByName      map[string]*Rule
	ParserRules []*Rule // file order; Rule.Index indexes this slice
}

type tok struct {
	kind string // id, lit, set, punct, eof
	text string
	pos  int
}

func lexG4(src string) ([]tok, error) {
	var toks []tok
	i := 0
	for i < len(src) {
		c := src[i]
		switch {
		case c == ' ' || c == '\t' || c == '\n' || c == '\r':
			i++
		case strings.HasPrefix(src[i:], "/*"):
			end := strings.Index(src[i+2:], "*/")
			if end < 0 {
				return nil, fmt.Errorf("g4: unterminated comment at %d", i)
			}
			i += end + 4
		case strings.HasPrefix(src[i:], "//"):
			for i < len(src) && src[i] != '\n' {
				i++
			}
		case c == '\'':
			j := i + 1
			for j < len(src) && src[j] != '\'' {
				if src[j] == '\\' {
					j++
				}
				j++
			}
			if j >= len(src) {
				return nil, fmt.Errorf("g4: unterminated literal at %d", i)
			}
			text, err := decodeEscapes(src[i+1 : j])
			if err != nil {
				return nil, fmt.Errorf("g4: literal at %d: %v", i, err)
			}
			toks = append(toks, tok{"lit", text, i})
			i = j + 1
		case c == '[':
			j := i + 1
			for j < len(src) && src[j] != ']' {
				if src[j] == '\\' {
					j++
				}
				j++
			}
			if j >= len(src) {
				return nil, fmt.Errorf("g4: unterminated set at %d", i)
			}
			toks = append(toks, tok{"set", src[i+1 : j], i})
			i = j + 1
		case c == '_' || unicode.IsLetter(rune(c)):
			j := i
			for j < len(src) && (src[j] == '_' || unicode.IsLetter(rune(src[j])) || unicode.IsDigit(rune(src[j]))) {
				j++
			}
			toks = append(toks, tok{"id", src[i:j], i})
			i = j
		case strings.ContainsRune(":;|()?*+~.", rune(c)):
			toks = append(toks, tok{"punct", string(c), i})
			i++
		default:
			return nil, fmt.Errorf("g4: unsupported character %q at offset %d (outside the ANTLR subset this reader understands)", c, i)
		}
	}
	toks = append(toks, tok{"eof", "", len(src)})
	return toks, nil
}

func decodeEscapes(s string) (string, error) {
	var sb strings.Builder
	for i := 0; i < len(s); i++ {
		if s[i] != '\\' {
			sb.WriteByte(s[i])
			continue
		}
		i++
		if i >= len(s) {
			return "", fmt.Errorf("dangling backslash")
		}
		switch s[i] {
		case 'n':
			sb.WriteByte('\n')
		case 'r':
			sb.WriteByte('\r')
		case 't':
			sb.WriteByte('\t')
		case 'f':
			sb.WriteByte('\f')
		case 'b':
			sb.WriteByte('\b')
		case 'u':
			if i+5 > len(s) {
				return "", fmt.Errorf("short \\u escape")
			}
			v, err := strconv.ParseUint(s[i+1:i+5], 16, 32)
			if err != nil {
				return "", err
			}
			sb.WriteRune(rune(v))
			i += 4
		default:
			sb.WriteByte(s[i]) // \\ \' \" \] \- ...
		}
	}
	return sb.String(), nil
}

type g4parser struct {
	toks []tok
	p    int
}

func (s *g4parser) peek() tok { return s.toks[s.p] }
func (s *g4parser) next() tok { t := s.toks[s.p]; s.p++; return t }
func (s *g4parser) isPunct(x string) bool {
	t := s.peek()
	return t.kind == "punct" && t.text == x
}

// Read parses the text of a .g4 file.
func Read(src string) (*Grammar, error) {
	toks, err := lexG4(src)
	if err != nil {
		return nil, err
	}
	ps := &g4parser{toks: toks}
	g := &Grammar{ByName: map[string]*Rule{}}
	if t := ps.next(); t.kind != "id" || t.text != "grammar" {
		return nil, fmt.Errorf("g4: expected 'grammar' at %d", t.pos)
	}
	g.Name = ps.next().text
	if !ps.isPunct(";") {
		return nil, fmt.Errorf("g4: expected ';' after grammar name")
	}
	ps.next()
	for ps.peek().kind != "eof" {
		r := &Rule{Index: -1}
		t := ps.next()
		if t.kind == "id" && t.text == "fragment" {
			r.Fragment = true
			t = ps.next()
		}
		if t.kind != "id" {
			return nil, fmt.Errorf("g4: expected rule name at %d, got %q", t.pos, t.text)
		}
		r.Name = t.text
		r.Lexer = unicode.IsUpper(rune(r.Name[0]))
		if !ps.isPunct(":") {
			return nil, fmt.Errorf("g4: rule %s: expected ':' at %d (options/labels/arguments are outside the subset)", r.Name, ps.peek().pos)
		}
		ps.next()
		body, err := ps.alt()
		if err != nil {
			return nil, fmt.Errorf("g4: rule %s: %v", r.Name, err)
		}
		if !ps.isPunct(";") {
			return nil, fmt.Errorf("g4: rule %s: expected ';' at %d, got %q", r.Name, ps.peek().pos, ps.peek().text)
		}
		ps.next()
		r.Body = body
		if _, dup := g.ByName[r.Name]; dup {
			return nil, fmt.Errorf("g4: rule %s defined twice", r.Name)
		}
		g.ByName[r.Name] = r
		g.Rules = append(g.Rules, r)
		if !r.Lexer {
			r.Index = len(g.ParserRules)
			g.ParserRules = append(g.ParserRules, r)
		}
	}
	// every reference must resolve
	var check func(r *Rule, n *Node) error
	check = func(r *Rule, n *Node) error {
		if n.Kind == KRef {
			if _, ok := g.ByName[n.Name]; !ok {
				return fmt.Errorf("g4: rule %s references undefined rule %s", r.Name, n.Name)
			}
		}
		for _, k := range n.Kids {
			if err := check(r, k); err != nil {
				return err
			}
		}
		return nil
	}
	for _, r := range g.Rules {
		if err := check(r, r.Body); err != nil {
			return nil, err
		}
	}
	return g, nil
}

func (s *g4parser) alt() (*Node, error) {
	var alts []*Node
	for {
		seq, err := s.seq()
		if err != nil {
			return nil, err
		}
		alts = append(alts, seq)
		if s.isPunct("|") {
			s.next()
			continue
		}
		break
	}
	if len(alts) == 1 {
		return alts[0], nil
	}
	return &Node{Kind: KAlt, Kids: alts}, nil
}

func (s *g4parser) seq() (*Node, error) {
	var items []*Node
	for {
		t := s.peek()
		if t.kind == "eof" || (t.kind == "punct" && (t.text == "|" || t.text == ")" || t.text == ";")) {
			break
		}
		el, err := s.element()
		if err != nil {
			return nil, err
		}
		items = append(items, el)
	}
	if len(items) == 1 {
		return items[0], nil
	}
	return &Node{Kind: KSeq, Kids: items}, nil
}

func (s *g4parser) element() (*Node, error) {
	t := s.next()
	var n *Node
	neg := false
	if t.kind == "punct" && t.text == "~" {
		neg = true
		t = s.next()
	}
	switch {
	case t.kind == "punct" && t.text == "(":
		if neg {
			return nil, fmt.Errorf("'~(' at %d is outside the subset", t.pos)
		}
		inner, err := s.alt()
		if err != nil {
			return nil, err
		}
		if !s.isPunct(")") {
			return nil, fmt.Errorf("expected ')' at %d", s.peek().pos)
		}
		s.next()
		n = inner
		// keep a group as its own node so that a suffix applies to the whole group
		if n.Kind != KSeq && n.Kind != KAlt {
			n = &Node{Kind: KSeq, Kids: []*Node{inner}}
		}
	case t.kind == "lit":
		n = &Node{Kind: KLit, Text: t.text, Neg: neg}
		if neg && len([]rune(t.text)) != 1 {
			return nil, fmt.Errorf("'~' on a multi-character literal at %d", t.pos)
		}
	case t.kind == "set":
		n = &Node{Kind: KSet, Text: t.text, Neg: neg}
	case t.kind == "punct" && t.text == ".":
		n = &Node{Kind: KAny}
	case t.kind == "id":
		if neg {
			return nil, fmt.Errorf("'~' on a rule reference at %d is outside the subset", t.pos)
		}
		if t.text == "EOF" {
			n = &Node{Kind: KEOF}
		} else {
			n = &Node{Kind: KRef, Name: t.text}
		}
	default:
		return nil, fmt.Errorf("unexpected %q at %d", t.text, t.pos)
	}
	for {
		switch {
		case s.isPunct("?"):
			s.next()
			if s.isPunct("?") {
				return nil, fmt.Errorf("non-greedy suffix at %d is outside the subset", s.peek().pos)
			}
			n = &Node{Kind: KOpt, Kids: []*Node{n}}
		case s.isPunct("*"):
			s.next()
			if s.isPunct("?") {
				return nil, fmt.Errorf("non-greedy suffix at %d is outside the subset", s.peek().pos)
			}
			n = &Node{Kind: KStar, Kids: []*Node{n}}
		case s.isPunct("+"):
			s.next()
			if s.isPunct("?") {
				return nil, fmt.Errorf("non-greedy suffix at %d is outside the subset", s.peek().pos)
			}
			n = &Node{Kind: KPlus, Kids: []*Node{n}}
		default:
			return n, nil
		}
	}
}

// sampleSet returns one character matched by a character set (used only for lexer rules that have no token pool).
func sampleSet(body string, neg bool) (string, error) {
	var members []rune
	class := false
	rs := []rune(body)
	for i := 0; i < len(rs); i++ {
		c := rs[i]
		if c == '\\' && i+1 < len(rs) {
			i++
			switch rs[i] {
			case 'n':
				members = append(members, '\n')
			case 'r':
				members = append(members, '\r')
			case 't':
				members = append(members, '\t')
			case 'f':
				members = append(members, '\f')
			case 'b':
				members = append(members, '\b')
			case 'u':
				if i+5 <= len(rs) {
					v, err := strconv.ParseUint(string(rs[i+1:i+5]), 16, 32)
					if err != nil {
						return "", err
					}
					members = append(members, rune(v))
					i += 4
				} else {
					return "", fmt.Errorf("short \\u escape in set [%s]", body)
				}
			case 'p', 'P':
				class = true
				for i < len(rs) && rs[i] != '}' {
					i++
				}
			default:
				members = append(members, rs[i])
			}
			continue
		}
		if c == '-' && len(members) > 0 && i+1 < len(rs) {
			// range a-z: the lower bound is already a member
			i++
			continue
		}
		members = append(members, c)
	}
	if !neg {
		if len(members) > 0 {
			return string(members[0]), nil
		}
		if class {
			return "a", nil
		}
		return "", fmt.Errorf("empty set [%s]", body)
	}
	for _, cand := range "xyz019 #" {
		in := false
		for _, m := range members {
			in = in || m == cand
		}
		if !in && !(class && unicode.IsLetter(cand)) {
			return string(cand), nil
		}
	}
	return "", fmt.Errorf("no sample for ~[%s]", body)
}
