package grammar

// CypherPools is the fixed adversarial token pool for the lexical rules of Cypher.g4 (DESIGN.md section 4, C07). The first
// element of each pool is the default instance; choosing any other costs one deviation. Every element must lex as exactly one
// token of its rule with the project's CypherLexer (the checkers verify that at start-up).
func CypherPools(full bool) map[string][]string {
	p := map[string][]string{
		"UnescapedSymbolicName": {"n", "nm_1", "é"},
		"EscapedSymbolicName":   {"`a b`", "`a``b`", "``", "`match`"},
		"HexLetter":             {"a", "F"},
		"StringLiteral":         {"'s'", "\"s\"", "'a\\'b'", "'\\u00e9'", "''"},
		"DecimalInteger":        {"1", "0", "17", "9223372036854775807", "9223372036854775808"},
		"HexInteger":            {"0x1F"},
		"OctalInteger":          {"0o17"},
		"ExponentDecimalReal":   {"1e3", "1.5e-3", ".5e1", "1e308", "1e999"},
		"RegularDecimalReal":    {"1.5", ".5", "1.0"},
		"SP":                    {" ", "/*c*/"},
	}
	if !full {
		p["SP"] = []string{" "}
	}
	return p
}

// CypherPenalty keeps the minimal query and the contexts read-only and inside the supported language: updating clauses, CALL,
// schema commands and the constructs on the front end's unsupported list are reached only by deliberate deviations.
func CypherPenalty() map[string]int {
	p := map[string]int{}
	for _, r := range []string{"oC_UpdatingClause", "oC_StandaloneCall", "oC_InQueryCall", "oC_Command", "oC_BulkImportQuery", "oC_LoadCSV",
		"oC_Parameter", "oC_LegacyParameter"} {
		p[r] = 1000
	}
	for _, r := range CypherUnsupportedRules {
		p[r] = 1000
	}
	return p
}

// CypherUnsupportedRules is the front end's list of grammar rules that must be answered with an "unsupported" error
// (cypher/frontend/context.go, BaseVisitor, "UNSUPPORTED RULES IN GRAMMAR").
var CypherUnsupportedRules = []string{"oC_Profile", "oC_BulkImportQuery", "oC_PeriodicCommitHint", "oC_Union", "oC_Command", "oC_Foreach",
	"oC_Start", "oC_CaseExpression", "oC_LegacyListExpression", "oC_Reduce", "oC_ExistentialSubquery", "oC_LegacyParameter", "oC_Explain"}
